import DelbDriver.Util
import DelbModel.Model.Attrs
open Lean Delb Delb.Attrs

namespace DelbDriver

def accOfJson (j : Json) : Except String Accessor := do
  let a ← j.getArr?
  let s (i : Nat) : Except String String := (a[i]?.getD Json.null).getStr?
  match ← s 0 with
  | "local" => return .local_ (← s 1)
  | "clark" => return .clark (← s 1) (← s 2)
  | "pair" => return .pair (← s 1) (← s 2)
  | k => throw s!"bad accessor {k}"

def resToJson : Res → Json
  | .unit => Json.str "ok"
  | .bool b => Json.bool b
  | .nat n => jnat n
  | .value v => Json.mkObj [("value", jstr v)]
  | .view id => Json.mkObj [("view", jnat id)]
  | .names l => Json.arr (l.map fun q => Json.arr #[Json.str q.1, Json.str q.2]).toArray
  | .keyError => Json.str "KeyError"
  | .none => Json.null

def storeOfJson (j : Json) : Except String Store := do
  (← j.getArr?).toList.mapM fun e => do
    let a ← e.getArr?
    let ns := match a[0]?.getD Json.null with | .str s => some s | _ => none
    let n ← (a[1]?.getD Json.null).getStr?
    let v ← (a[2]?.getD Json.null).getStr?
    pure (((ns, n) : Key), v.toList)

def itemsOfJson (j : Json) : Except String (List (Accessor × Str)) := do
  (← j.getArr?).toList.mapM fun e => do
    let a ← e.getArr?
    let acc ← accOfJson (a[0]?.getD Json.null)
    let v ← (a[1]?.getD Json.null).getStr?
    pure (acc, v.toList)

/-- runs the operations of one collection; `other` is the second collection of an `eq` operation -/
def runAttrOps (c : Ctx) (init : Store) (ops : Array Json) (other : Option (Ctx × State)) :
    Except String (State × Array Json) := do
  let mut s : State := { store := init, cache := [], views := [], nextView := 0 }
  let mut out : Array Json := #[]
  -- the client numbers Attribute objects in the order it first got hold of them
  let mut handles : Array Nat := #[]
  for opj in ops do
    let op ← str opj "op"
    let acc : Except String Accessor := do accOfJson (← opj.getObjVal? "acc")
    match op with
    | "set" => s := setItem c s (← acc) (← chars opj "value"); out := out.push (Json.str "ok")
    | "del" => let (s', r) := delItem c s (← acc); s := s'; out := out.push (resToJson r)
    | "get" =>
      let (s', r) := getItem c s (← acc)
      s := s'
      match r with
      | .view vid =>
        if !handles.contains vid then handles := handles.push vid
        out := out.push (resToJson (.view ((handles.toList.idxOf vid))))
      | r => out := out.push (resToJson r)
    | "pop" =>
      let (s', r) := pop c s (← acc)
      s := s'
      match r with
      | .view vid =>
        if !handles.contains vid then handles := handles.push vid
        out := out.push (resToJson (.view (handles.toList.idxOf vid)))
      | r => out := out.push (resToJson r)
    | "popitem" =>
      let (s', key, r) := popItem c s
      s := s'
      match key, r with
      | some q, .view vid =>
        if !handles.contains vid then handles := handles.push vid
        out := out.push (Json.mkObj [("name", Json.arr #[Json.str q.1, Json.str q.2]), ("view", jnat (handles.toList.idxOf vid))])
      | _, r => out := out.push (resToJson r)
    | "clear" => s := clear c s; out := out.push (Json.str "ok")
    | "setdefault" =>
      let (s', r) := setDefault c s (← acc) (← chars opj "value")
      s := s'
      match r with
      | .view vid =>
        if !handles.contains vid then handles := handles.push vid
        out := out.push (resToJson (.view (handles.toList.idxOf vid)))
      | r => out := out.push (resToJson r)
    | "update" => s := update c s (← itemsOfJson (← opj.getObjVal? "items")); out := out.push (Json.str "ok")
    | "set_view" =>
      -- `attributes[item] = attribute`: the value of the attribute object is assigned
      match viewValue c s (handles[(← nat opj "view")]?.getD 1000000) with
      | .value x => s := setItem c s (← acc) x; out := out.push (Json.str "ok")
      | r => out := out.push (resToJson r)
    | "eq" =>
      -- answers [self == other, other == self]
      match other with
      | some (c2, s2) =>
        out := out.push (Json.arr #[Json.bool (eqCollections c s c2 s2), Json.bool (eqCollections c2 s2 c s)])
      | none => throw "eq without a second collection"
    | "eq_mapping" => out := out.push (Json.bool (eqMapping c s (← itemsOfJson (← opj.getObjVal? "items"))))
    | "contains" => out := out.push (Json.bool (contains c s (← acc)))
    | "getvalue" => out := out.push (match getValue c s (← acc) with | some v => Json.mkObj [("value", jstr v)] | none => Json.null)
    | "iter" => out := out.push (resToJson (.names (iter c s)))
    | "len" => out := out.push (jnat (len s))
    | "view_value" => out := out.push (resToJson (viewValue c s (handles[(← nat opj "view")]?.getD 1000000)))
    | "view_name" =>
      -- `(attribute.namespace, attribute.local_name)`
      match viewName c s (handles[(← nat opj "view")]?.getD 1000000) with
      | some q => out := out.push (Json.arr #[Json.str q.1, Json.str q.2])
      | none => out := out.push (Json.str "KeyError")
    | "view_set" => s := viewSetValue c s (handles[(← nat opj "view")]?.getD 1000000) (← chars opj "value"); out := out.push (Json.str "ok")
    | "view_rename" =>
      let (s', r) := renameView c s (handles[(← nat opj "view")]?.getD 1000000) (← str opj "ns", ← str opj "name")
      s := s'; out := out.push (resToJson r)
    | o => throw s!"unknown attrs op {o}"
  return (s, out)

/-- {"cmd":"attrs","node_ns":…,"default_ns":…,"init":[[ns|null,name,value],…],"ops":[…],
     "other":{"node_ns":…,"default_ns":…,"init":[…],"ops":[…]}?} -/
def handleAttrs (j : Json) : Except String Json := do
  let ctxOf (j : Json) : Except String Ctx := do
    pure { nodeNs := ← str j "node_ns", defaultNs := ← str j "default_ns" }
  let other ← match j.getObjVal? "other" with
    | .ok .null => pure none
    | .ok o => do
      let c2 ← ctxOf o
      let (s2, out2) ← runAttrOps c2 (← storeOfJson (← o.getObjVal? "init")) (← arr o "ops") none
      pure (some (c2, s2, out2))
    | .error _ => pure none
  let c ← ctxOf j
  let (s, out) ← runAttrOps c (← storeOfJson (← j.getObjVal? "init")) (← arr j "ops")
    (other.map fun o => (o.1, o.2.1))
  let jd (d : Dict) := Json.arr (d.map fun e => Json.arr #[Json.str e.1.1, Json.str e.1.2, jstr e.2]).toArray
  return Json.mkObj [("results", Json.arr out), ("dict", jd (absStore s.store)), ("reported", jd (reportedDict c s.store)),
    ("other_results", match other with | some o => Json.arr o.2.2 | none => Json.null)]

end DelbDriver

import Lean.Data.Json
open Lean

namespace DelbDriver

def str (j : Json) (k : String) : Except String String := do
  (← j.getObjVal? k).getStr?
def nat (j : Json) (k : String) : Except String Nat := do
  (← j.getObjVal? k).getNat?
def bool (j : Json) (k : String) : Except String Bool := do
  (← j.getObjVal? k).getBool?
def arr (j : Json) (k : String) : Except String (Array Json) := do
  (← j.getObjVal? k).getArr?
def chars (j : Json) (k : String) : Except String (List Char) := do
  return (← str j k).toList
def optStr (j : Json) (k : String) : Except String (Option String) :=
  match j.getObjVal? k with
  | .ok .null => pure none
  | .ok v => do pure (some (← v.getStr?))
  | .error _ => pure none

def jstr (cs : List Char) : Json := Json.str (String.ofList cs)
def jstrs (ls : List (List Char)) : Json := Json.arr (ls.map jstr).toArray
def jnat (n : Nat) : Json := Json.num (JsonNumber.fromNat n)

end DelbDriver

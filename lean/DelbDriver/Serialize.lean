import DelbDriver.Tree
import DelbModel.Model.Serialize
open Lean Delb Delb.Ser

namespace DelbDriver

def dictToJson (d : Dict) : Json :=
  Json.arr (d.map fun kv => Json.arr #[Json.str kv.1, Json.str kv.2]).toArray

def serErrToJson : Ser.Err → Json
  | .assertion s => Json.mkObj [("err", "AssertionError"), ("site", Json.str s)]
  | .notImplemented => Json.mkObj [("err", "NotImplementedError")]
  | .invalidCodePath s => Json.mkObj [("err", "InvalidCodePath"), ("site", Json.str s)]

def declsOfJson (j : Json) : Except String (List (Option String × String)) := do
  let a ← j.getArr?
  a.toList.mapM fun e => do
    let p ← e.getArr?
    let k := p[0]?.getD Json.null
    let v ← (p[1]?.getD Json.null).getStr?
    match k with
    | .null => pure (none, v)
    | k => do pure (some (← k.getStr?), v)

def ordersOfJson (j : Json) : Except String (List (List String)) := do
  let a ← j.getArr?
  a.toList.mapM fun e => do
    let l ← e.getArr?
    l.toList.mapM fun s => s.getStr?

/-- {"cmd":"serialize","tree":…,"decls":[[prefix|null, ns],…],"orders":[[ns,…],…] | null} -/
def handleSerialize (j : Json) : Except String Json := do
  let t ← node j "tree"
  let decls ← declsOfJson (← j.getObjVal? "decls")
  match normalizeDecls decls with
  | .error e => return Json.mkObj [("nsmap_err", Json.str e)]
  | .ok nsmap =>
    let orders ← match j.getObjVal? "orders" with
      | .ok .null => pure (defaultOrders t)
      | .ok o => ordersOfJson o
      | .error _ => pure (defaultOrders t)
    if !ordersValid t orders then
      return Json.mkObj [("driver_error", Json.str "orders are not permutations of the nodes' namespace sets"),
                         ("expected", Json.arr ((defaultOrders t).map fun o => Json.arr (o.map Json.str).toArray).toArray)]
    match collect nsmap t orders with
    | .error e => return Json.mkObj [("nsmap", dictToJson nsmap), ("result", serErrToJson e)]
    | .ok m =>
      match emitRoot m t with
      | .error e => return Json.mkObj [("nsmap", dictToJson nsmap), ("prefixes", dictToJson m), ("result", serErrToJson e)]
      | .ok toks =>
        let built := match build toks with
          | some n => nodeToJson n
          | none => Json.null
        return Json.mkObj [("nsmap", dictToJson nsmap), ("prefixes", dictToJson m),
          ("result", Json.mkObj [("out", jstr (render toks))]),
          ("built", built), ("normalized", nodeToJson (normalize t))]

end DelbDriver

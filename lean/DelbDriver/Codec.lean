import DelbDriver.Util
import DelbModel.Model.Codec
open Lean Delb Delb.Codec

namespace DelbDriver

def codecOf (j : Json) : Except String Codec := do
  let l ← str j "codec"
  match Codec.ofLabel? l with
  | some c => pure c
  | none => throw s!"unknown codec {l}"

/-- {"cmd":"encode","codec":"utf-8"|"utf-16"|"utf-16-le"|"utf-16-be"|"latin-1"|"ascii",
     "newline":null|""|"\n"|"\r"|"\r\n","text":s[,"linesep":s]}
    → {"bytes":[…]} (what `TextIOWrapper(buffer, encoding=codec, newline=newline).write(text)` puts
    into the buffer) or {"error":"unencodable"} -/
def handleEncode (j : Json) : Except String Json := do
  let c ← codecOf j
  let nl := (← optStr j "newline").map String.toList
  unless nl ∈ [none, some [], some ['\n'], some ['\r'], some ['\r', '\n']] do
    throw "illegal newline value"
  let linesep := ((← optStr j "linesep").getD "\n").toList
  let text ← chars j "text"
  match encode c (translateNewlinesWith linesep nl text) with
  | some bs => return Json.mkObj [("bytes", Json.arr (bs.map jnat).toArray)]
  | none => return Json.mkObj [("error", Json.str "unencodable")]

/-- {"cmd":"decode","codec":…,"bytes":[…]} → {"text":s,"eol":xmlEol s} or {"error":"undecodable"} -/
def handleDecode (j : Json) : Except String Json := do
  let c ← codecOf j
  let bs ← (← arr j "bytes").toList.mapM (fun v => v.getNat?)
  match decode c bs with
  | some s => return Json.mkObj [("text", jstr s), ("eol", jstr (xmlEol s))]
  | none => return Json.mkObj [("error", Json.str "undecodable")]

end DelbDriver

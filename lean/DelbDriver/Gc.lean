import DelbDriver.Util
import DelbModel.Model.Gc
open Lean Delb Delb.Gc

namespace DelbDriver

def slotOfJson (j : Json) : Except String Slot := do
  let app ← (← arr j "appended").toList.mapM (fun a => do
    return ({ userRefs := ← nat a "refs", content := ← chars a "content" } : TextObj))
  return { headRefs := ← nat j "head_refs", stored := ← chars j "stored", appended := app }

def wrapperOfJson (j : Json) : Except String Wrapper := do
  let doc ← match j.getObjVal? "doc" with
    | .ok .null | .error _ => pure none
    | .ok d => match d.getNat? with
      | .ok n => pure (some n)
      | .error e => throw e
  return { elem := ← nat j "elem", isTag := ← bool j "is_tag", userRefs := ← nat j "refs", docRefs := doc,
           data := ← slotOfJson (← j.getObjVal? "data"), tail := ← slotOfJson (← j.getObjVal? "tail") }

/-- {"cmd":"gc","locks":n,"cache":[wrapper…]} → kept element ids (in order), folded elements -/
def handleGc (j : Json) : Except String Json := do
  let ws ← (← arr j "cache").toList.mapM wrapperOfJson
  let s : State := { locks := ← nat j "locks", cache := ws }
  let (s', es) := gcStep s
  return Json.mkObj [
    ("kept", Json.arr (s'.cache.map (fun w => jnat w.elem)).toArray),
    ("evicted", Json.arr (es.map (fun e => Json.mkObj [("elem", jnat e.elem), ("text", jstr e.text), ("tail", jstr e.tail)])).toArray),
    ("referenced", Json.arr (ws.map (fun w => Json.bool (anyReferenced w))).toArray)]

end DelbDriver

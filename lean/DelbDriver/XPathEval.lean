import DelbDriver.Edit
import DelbDriver.Serialize
import DelbDriver.XPath
import DelbModel.Model.XPath.Create
open Lean Delb Delb.Edit Delb.XPath

namespace DelbDriver

def evalErrToJson : EvalErr → Json
  | .unknownPrefix p => Json.mkObj [("err", "XPathEvaluationError"), ("prefix", Json.str p)]
  | .py k site => Json.mkObj [("err", Json.str k), ("site", Json.str site)]

def xnodeId (root : PTree) : XNode → Json
  | .doc => Json.str "doc"
  | .at p => match getAtP root p with
    | some t => jnat t.id
    | none => Json.null

/-- {"cmd":"xpath","tree":ptree,"ctx":[i,…],"expr":"…","decls":[[p,ns],…]|null} -/
def handleXPath (j : Json) : Except String Json := do
  let root ← ptreeOfJson (← j.getObjVal? "tree")
  let ctx ← (← arr j "ctx").toList.mapM (·.getNat?)
  let expr ← chars j "expr"
  let decls ← match j.getObjVal? "decls" with
    | .ok .null | .error _ =>
      match getAtP root ctx with
      | some (.tag _ ns _ _ _) => pure [(some "", ns)]
      | _ => pure []
    | .ok d => declsOfJson d
  match Ser.normalizeDecls decls with
  | .error e => return Json.mkObj [("nsmap_err", Json.str e)]
  | .ok env =>
    match parse expr with
    | .error e => return Json.mkObj [("parse", errToJson expr e)]
    | .ok x =>
      match evaluate root env ctx x with
      | .error e => return Json.mkObj [("result", evalErrToJson e)]
      | .ok ns =>
        let paths := ns.filterMap (fun n => match n with | .at p => some p | .doc => none)
        let allTags := paths.all (fun p => match getAtP root p with | some (.tag ..) => true | _ => false)
        return Json.mkObj [("result", Json.mkObj [("ok", Json.arr (ns.map (xnodeId root)).toArray)]),
          ("sorted", if allTags then Json.arr ((Nav.sortPaths paths).map (fun p => xnodeId root (.at p))).toArray else Json.null)]

/-- {"cmd":"locpath","tree":ptree,"ctx":[…]}: location_path of every tag node, whether it parses to the
    expected AST, and what it selects from the context node -/
def handleLocPath (j : Json) : Except String Json := do
  let root ← ptreeOfJson (← j.getObjVal? "tree")
  let ctx ← match j.getObjVal? "ctx" with
    | .ok c => (← c.getArr?).toList.mapM (·.getNat?)
    | .error _ => pure []
  let tags := (pathsOf root).filter (tagPath root)
  let env : NsEnv := [("", "")]
  let rows := tags.map fun p =>
    let lp := locationPath root p
    let (sel, astOk) : Json × Bool := match parse lp with
      | .ok x => ((match evaluate root env ctx x with
          | .ok ns => Json.arr (ns.map (xnodeId root)).toArray
          | .error e => evalErrToJson e), toString (repr x) == toString (repr (locationPathAst root p)))
      | .error e => (errToJson lp e, false)
    let selAst : Json := match evaluate root env ctx (locationPathAst root p) with
      | .ok ns => Json.arr (ns.map (xnodeId root)).toArray
      | .error e => evalErrToJson e
    Json.mkObj [("id", xnodeId root (.at p)), ("location_path", jstr lp), ("selects", sel),
                ("ast_ok", Json.bool astOk), ("ast_selects", selAst)]
  return Json.mkObj [("rows", Json.arr rows.toArray)]

end DelbDriver

namespace DelbDriver
open Delb Delb.Edit Delb.XPath

/-- {"cmd":"foc","tree":ptree,"next":n,"ctx":[…],"expr":"…","decls_query":…|null,"decls_create":…} -/
def handleFoc (j : Json) : Except String Json := do
  let root ← ptreeOfJson (← j.getObjVal? "tree")
  let next ← nat j "next"
  let ctx ← (← arr j "ctx").toList.mapM (·.getNat?)
  let expr ← chars j "expr"
  let ctxNs := match getAtP root ctx with | some (.tag _ ns _ _ _) => ns | _ => ""
  let declsQ ← match j.getObjVal? "decls_query" with
    | .ok .null | .error _ => pure [(some "", ctxNs)]
    | .ok d => declsOfJson d
  let declsC ← match j.getObjVal? "decls_create" with
    | .ok .null | .error _ => pure [(some "", ctxNs)]
    | .ok d => declsOfJson d
  match Ser.normalizeDecls declsQ, Ser.normalizeDecls declsC with
  | .ok envQ, .ok envC =>
    match parse expr with
    | .error e => return Json.mkObj [("parse", errToJson expr e)]
    | .ok x =>
      match fetchOrCreate root next envQ envC ctx x with
      | .ok (root', r, n') => return Json.mkObj [("tree", ptreeToJson root'), ("node", xnodeId root' r), ("next", jnat n')]
      | .error .valueError => return Json.mkObj [("err", "ValueError")]
      | .error .ambiguous => return Json.mkObj [("err", "AmbiguousTreeError")]
      | .error (.eval e) => return Json.mkObj [("err_eval", evalErrToJson e)]
      | .error (.assertion s) =>
        -- the site `isinstance(node, TagNode)` (a path that needs a second root) raises InvalidOperation in the code
        return Json.mkObj [("err", if s == "isinstance(node, TagNode)" then "InvalidOperation" else "AssertionError"),
                           ("site", Json.str s)]
  | _, _ => return Json.mkObj [("nsmap_err", Json.str "ValueError")]

end DelbDriver

import DelbDriver.Tree
import DelbModel.Model.Compare
open Lean Delb Delb.Compare

namespace DelbDriver

def filterByName : String → Node → Bool
  | "all", _ => true
  | "default", n => n.isTag || n.isText
  | "tag", n => n.isTag
  | "text", n => n.isText
  | "nocomment", .comment _ => false
  | "nocomment", _ => true
  | "nopi", .pi .. => false
  | "nopi", _ => true
  | _, _ => true

def diffName : Diff → String
  | .nodeType => "NodeType" | .tagNamespace => "TagNamespace" | .tagLocalName => "TagLocalName"
  | .tagAttributes => "TagAttributes" | .tagChildrenSize => "TagChildrenSize" | .nodeContent => "NodeContent"

def handleCompare (j : Json) : Except String Json := do
  let a ← node j "a"
  let b ← node j "b"
  let f := filterByName (← str j "filter")
  let enc : Option (Diff × List Nat) → Json
    | none => Json.null
    | some (d, p) => Json.arr #[Json.str (diffName d), Json.arr (p.map jnat).toArray]
  return Json.mkObj [("ab", enc (compare f a b)), ("ba", enc (compare f b a))]

end DelbDriver

import DelbDriver.Tree
import DelbModel.Model.Scan
open Lean Delb Delb.Ser

namespace DelbDriver

/-- `["s",qname,[[k,v],…],selfClose]`, `["e",qname]`, `["t",chars]`, `["c",comment]`,
    `["p",target,content]` -/
def tokToJson : Tok → Json
  | .stag qn attrs sc =>
    Json.arr #[Json.str "s", jstr qn,
      Json.arr (attrs.map fun kv => Json.arr #[jstr kv.1, jstr kv.2]).toArray, Json.bool sc]
  | .etag qn => Json.arr #[Json.str "e", jstr qn]
  | .chars s => Json.arr #[Json.str "t", jstr s]
  | .comment s => Json.arr #[Json.str "c", jstr s]
  | .pi t s => Json.arr #[Json.str "p", Json.str t, jstr s]

/-- {"cmd":"scan","text":"…"} → {"tokens":[…],"built":tree|null} | {"error":"not-well-formed"};
    `built` is what the namespace-aware tree builder makes of the tokens (null: not one balanced
    element, or an undeclared prefix) -/
def handleScan (j : Json) : Except String Json := do
  let text ← chars j "text"
  match scan text with
  | none => return Json.mkObj [("error", Json.str "not-well-formed")]
  | some toks =>
    let built := match build toks with
      | some n => nodeToJson n
      | none => Json.null
    return Json.mkObj [("tokens", Json.arr (toks.map tokToJson).toArray), ("built", built)]

end DelbDriver

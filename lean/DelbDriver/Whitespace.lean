import DelbDriver.Tree
import DelbModel.Model.Whitespace
open Lean Delb Delb.WS

namespace DelbDriver

def handleReduce (j : Json) : Except String Json := do
  let t ← node j "tree"
  let merge := (bool j "merge").toOption.getD true
  let t' := if merge then mergeNode t else t
  return Json.mkObj [
    ("impl", nodeToJson (reduceImpl pyWs t')),
    ("spec", nodeToJson (reduceSpec pyWs t'))]

def handleReduceContent (j : Json) : Except String Json := do
  let s ← chars j "s"
  let f ← bool j "first"
  let l ← bool j "last"
  return Json.mkObj [
    ("impl", jstr (reduceContentImpl pyWs s f l)),
    ("spec", jstr (reduceContentSpec pyWs s f l))]

end DelbDriver

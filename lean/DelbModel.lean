-- root of the library: models, generated tables, lemmas and property theorems (all of them, so that
-- MANIFEST.setup_cmd pre-builds everything and the per-property checks only rebuild what changed)
import DelbModel.Generated.Tables
import DelbModel.Props.C01
import DelbModel.Props.C01Api
import DelbModel.Props.C02
import DelbModel.Props.C02Scan
import DelbModel.Props.C03
import DelbModel.Props.C03Wrap
import DelbModel.Props.C04
import DelbModel.Props.C05
import DelbModel.Props.C06
import DelbModel.Props.C07
import DelbModel.Props.C08
import DelbModel.Props.C09
import DelbModel.Props.C10
import DelbModel.Props.C11
import DelbModel.Props.C12
import DelbModel.Props.C12Codec
import DelbModel.Props.C13
import DelbModel.Props.C14
import DelbModel.Props.C15
import DelbModel.Props.C16
import DelbModel.Props.C17
import DelbModel.Props.C18
import DelbModel.Props.C19

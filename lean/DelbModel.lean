-- This module serves as the root of the `DelbModel` library.
-- Import modules here that should be built as part of the library.
import DelbModel.Basic

-- root of the library: models, generated tables, lemmas and property theorems
import DelbModel.Generated.Tables
import DelbModel.Model.Tree
import DelbModel.Model.Wrap
import DelbModel.Model.Whitespace
import DelbModel.Lemmas.Wrap
import DelbModel.Props.C19

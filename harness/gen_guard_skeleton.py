"""Translator for C09 (second half: "after any such rejected single-node call both trees are exactly as before").

For every editing entry point of the library the `ast` of its body is unfolded into its control-flow paths (if/else
alternatives, loop bodies taken once, `with`/`try` bodies in line, `return`/`raise` ending a path); every path is the
sequence of *events* that matter for the question "can the call be rejected after it has already changed a tree":

  guard    a `raise` statement, or a call of one of the checking helpers (`_prepare_new_relative`,
           `_validate_sibling_operation`, `_validate_content`, `_validate_target_value`): the call may end here with an
           exception
  mutate   a call of one of the primitive tree mutators (`_add_following_sibling`, `_add_preceding_sibling`,
           `__add_first_child`, `_bind_to_data/_tail`, `_insert_text_node_as_next_appended`, `_prepend_text_node`,
           `_copy_root_siblings`, lxml's addnext/addprevious/append/remove/insert/extend/clear on an etree object), or an
           assignment to tree state (`….text`, `….tail` of an etree object, `_tail_node`, `_data_node`,
           `_appended_text_node`, `_bound_to`, `_position`, `__root_node__`, `__document__`, `_etree_obj`; `.target` of an
           etree processing instruction)
  call f   a call of another editing entry point (`add_following_siblings`, `add_preceding_siblings`, `append_children`,
           `prepend_children`, `insert_children`, `replace_with`, `detach`, `node[i] = x`, `del node[i]`): it checks, then
           mutates

`assert` statements are not events (they state internal consistency, the property is about the documented rejections).
Calls inside a branch that handles further queued nodes (`if queue:`) belong to multi-node calls and are marked `queued`;
the property speaks about single-node calls.

The Lean side (`Model/GuardOrder.lean`, `Props/C09.lean`) proves for the event machine that a path of the shape
guard* (mutate | call)* cannot end in a rejection after a change, and decides that every path of every entry point of the
current source has that shape, up to an explicit list of (caller, callee) pairs whose later checks cannot fire.
"""

from __future__ import annotations

import ast
from pathlib import Path

FILES = ["_delb/nodes.py", "delb/__init__.py"]

ENTRY = {
    "NodeBase.add_following_siblings", "NodeBase.add_preceding_siblings", "NodeBase.replace_with",
    "NodeBase._prepare_new_relative", "NodeBase._validate_sibling_operation", "TagNode._validate_sibling_operation",
    "TagNode.append_children", "TagNode.prepend_children", "TagNode.insert_children", "TagNode.__setitem__",
    "TagNode.__delitem__", "TagNode.detach", "_ElementWrappingNode.detach", "TextNode.detach",
    "CommentNode.content.setter", "ProcessingInstructionNode.target.setter", "Document.root.setter",
}
CHECKERS = {"_prepare_new_relative", "_validate_sibling_operation", "_validate_content", "_validate_target_value"}
MUTATORS = {"_add_following_sibling", "_add_preceding_sibling", "__add_first_child", "_bind_to_data", "_bind_to_tail",
            "_insert_text_node_as_next_appended", "_prepend_text_node", "_copy_root_siblings",
            "_add_next_element_wrapping_node"}
LXML_MUTATORS = {"addnext", "addprevious", "append", "remove", "insert", "extend", "clear", "replace"}
STATE_ATTRS = {"_tail_node", "_data_node", "_appended_text_node", "_bound_to", "_position", "__root_node__", "__document__",
               "_etree_obj"}
ENTRY_CALLS = {"add_following_siblings", "add_preceding_siblings", "append_children", "prepend_children",
               "insert_children", "replace_with", "detach"}
MAX_PATHS = 400


def lean_str(s: str) -> str:
    return '"' + s.replace("\\", "\\\\").replace('"', '\\"') + '"'


def is_etree(expr) -> bool:
    txt = ast.unparse(expr)
    return "_etree_obj" in txt or "etree" in txt or txt in ("target", "element", "root")


class Events(ast.NodeVisitor):
    """events of one expression / simple statement, in evaluation order (approximated by source order)"""

    def __init__(self, queued: bool):
        self.out = []
        self.queued = queued

    def forwards_rest(self, call) -> bool:
        """the call passes on the remaining offered nodes: `f(*queue, ...)`"""
        return any(isinstance(a, ast.Starred) and isinstance(a.value, ast.Name) and a.value.id in REST[-1] for a in call.args)

    def visit_FunctionDef(self, node):
        return

    visit_AsyncFunctionDef = visit_Lambda = visit_FunctionDef

    def visit_Call(self, node):
        for a in node.args:
            self.visit(a)
        for k in node.keywords:
            self.visit(k.value)
        f = node.func
        if isinstance(f, ast.Attribute):
            self.visit(f.value)
            name = f.attr
            if name in CHECKERS:
                self.out.append(("guard", name))
            elif name in MUTATORS:
                self.out.append(("mutate", name))
            elif name in LXML_MUTATORS and is_etree(f.value):
                self.out.append(("mutate", "lxml." + name))
            elif name in ENTRY_CALLS:
                self.out.append(("queued" if self.queued or self.forwards_rest(node) else "call", name))
        elif isinstance(f, ast.Name):
            if f.id in CHECKERS:
                self.out.append(("guard", f.id))
            elif f.id in MUTATORS:
                self.out.append(("mutate", f.id))

    def store(self, target):
        if isinstance(target, (ast.Tuple, ast.List)):
            for t in target.elts:
                self.store(t)
        elif isinstance(target, ast.Attribute):
            self.visit(target.value)
            if target.attr in STATE_ATTRS or (target.attr in ("text", "tail", "target") and is_etree(target.value)):
                self.out.append(("mutate", "set " + target.attr))
        elif isinstance(target, ast.Subscript):
            self.visit(target.value)
            # `node[i] = x` / `del node[i]` on something that is not a plain local container
            if not isinstance(target.value, ast.Name) or target.value.id in ("self", "parent", "node"):
                if "attrib" not in ast.unparse(target.value) and "wrappers" not in ast.unparse(target.value):
                    self.out.append(("queued" if self.queued else "call", "__setitem__" if isinstance(target.ctx, ast.Store) else "__delitem__"))


def stmt_events(stmt, queued) -> list:
    ev = Events(queued)
    if isinstance(stmt, ast.Assign):
        ev.visit(stmt.value)
        for t in stmt.targets:
            ev.store(t)
    elif isinstance(stmt, (ast.AugAssign, ast.AnnAssign)):
        if stmt.value is not None:
            ev.visit(stmt.value)
        ev.store(stmt.target)
    elif isinstance(stmt, ast.Delete):
        for t in stmt.targets:
            ev.store(t)
    else:
        ev.visit(stmt)
    return ev.out


REST: list[set] = [set()]


def rest_names(fn) -> set:
    """names that hold the further offered nodes of a multi-node call: the function's `*args`, the starred target of an
    unpacking (`this, *queue = nodes`), the results of a checking helper that are unpacked (`this, queue = ...`), and
    plain aliases of such names"""
    names = set()
    if fn.args.vararg:
        names.add(fn.args.vararg.arg)
    changed = True
    while changed:
        changed = False
        for n in ast.walk(fn):
            if not isinstance(n, ast.Assign):
                continue
            for t in n.targets:
                new = set()
                if isinstance(t, (ast.Tuple, ast.List)):
                    for e in t.elts:
                        if isinstance(e, ast.Starred) and isinstance(e.value, ast.Name):
                            new.add(e.value.id)
                    if isinstance(n.value, ast.Call) and isinstance(n.value.func, ast.Attribute) and n.value.func.attr in CHECKERS:
                        new |= {e.id for e in t.elts[1:] if isinstance(e, ast.Name)}
                elif isinstance(t, ast.Name) and isinstance(n.value, ast.Name) and n.value.id in names:
                    new.add(t.id)
                if not new <= names:
                    names |= new
                    changed = True
    return names


def is_queue_test(test) -> bool:
    """`if queue:` - the branch that handles the further nodes of a multi-node call"""
    return isinstance(test, ast.Name) and test.id in REST[-1]


def paths_of(body, queued=False):
    """list of (events, ended) for a statement list"""
    paths = [([], False)]

    def extend(new):
        nonlocal paths
        nxt = []
        for ev, ended in paths:
            if ended:
                nxt.append((ev, True))
            else:
                for ev2, ended2 in new:
                    nxt.append((ev + ev2, ended2))
        paths = nxt[:MAX_PATHS]

    for st in body:
        if isinstance(st, ast.Raise):
            pre = stmt_events(st.exc, queued) if st.exc is not None else []
            extend([(pre + [("guard", "raise " + (ast.unparse(st.exc.func) if isinstance(st.exc, ast.Call) else ast.unparse(st.exc) if st.exc else ""))], True)])
        elif isinstance(st, ast.Return):
            extend([(stmt_events(st.value, queued) if st.value is not None else [], True)])
        elif isinstance(st, ast.If):
            test = stmt_events(st.test, queued)
            q = queued or is_queue_test(st.test)
            a = paths_of(st.body, q)
            b = paths_of(st.orelse, queued) if st.orelse else [([], False)]
            extend([(test + e, end) for e, end in a + b])
        elif isinstance(st, (ast.For, ast.While)):
            head = stmt_events(st.iter if isinstance(st, ast.For) else st.test, queued)
            once = paths_of(st.body, queued)
            extend([(head, False)] + [(head + e, end) for e, end in once])
        elif isinstance(st, ast.With):
            head = [e for i in st.items for e in stmt_events(i.context_expr, queued)]
            extend([(head + e, end) for e, end in paths_of(st.body, queued)])
        elif isinstance(st, ast.Try):
            alts = paths_of(st.body + st.orelse, queued)
            for h in st.handlers:
                alts += paths_of(h.body, queued)
            extend(alts)
            if st.finalbody:
                extend(paths_of(st.finalbody, queued))
        elif isinstance(st, (ast.FunctionDef, ast.AsyncFunctionDef, ast.ClassDef, ast.Assert, ast.Pass, ast.Import, ast.ImportFrom)):
            continue
        else:
            extend([(stmt_events(st, queued), False)])
    return paths


def generate(repo: Path) -> str:
    found = {}
    for rel in FILES:
        tree = ast.parse((repo / rel).read_text())

        def walk(body, prefix):
            for n in body:
                if isinstance(n, ast.ClassDef):
                    walk(n.body, prefix + n.name + ".")
                elif isinstance(n, (ast.FunctionDef, ast.AsyncFunctionDef)):
                    q = prefix + n.name
                    for d in n.decorator_list:
                        if isinstance(d, ast.Attribute) and d.attr == "setter":
                            q += ".setter"
                    if any(ast.unparse(d).endswith("overload") for d in n.decorator_list):
                        continue
                    if q in ENTRY:
                        found[q] = (rel, n)

        walk(tree.body, "")
    out = ["-- GENERATED by harness/gen_guard_skeleton.py from /repo - do not edit.", "namespace Delb.Gen", "",
           "/-- what a step of an editing entry point can do to the question \"rejected after a change?\" -/",
           "inductive GuardEv", "  | guard (what : String)    -- may raise: a `raise` or a checking helper",
           "  | mutate (what : String)   -- changes a tree", "  | call (callee : String)   -- another editing entry point: checks, then mutates",
           "  | queued (callee : String) -- entry point called for the further nodes of a multi-node call",
           "deriving Repr, DecidableEq", "",
           "structure EntryPaths where", "  name : String", "  file : String", "  paths : List (List GuardEv)", "deriving Repr", "",
           "def guardSkeleton : List EntryPaths := ["]
    for q in sorted(ENTRY):
        if q not in found:
            out.append("  ⟨%s, \"<missing>\", []⟩," % lean_str(q))
            continue
        rel, fn = found[q]
        paths = []
        REST.append(rest_names(fn))
        raw = paths_of(fn.body)
        REST.pop()
        for ev, _ in raw:
            if ev not in paths:
                paths.append(ev)
        body = ",\n    ".join("[" + ", ".join(".%s %s" % (k, lean_str(w)) for k, w in p) + "]" for p in paths)
        out.append("  ⟨%s, %s, [\n    %s]⟩," % (lean_str(q), lean_str(rel), body))
    out += ["]", "", "end Delb.Gen", ""]
    return "\n".join(out)


if __name__ == "__main__":
    import sys

    print(generate(Path(sys.argv[1] if len(sys.argv) > 1 else "/repo")))

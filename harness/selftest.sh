#!/bin/bash
# maintenance helper (not a registered command): every claimed check under several seeds on the current tree
cd /verif
props=$(python3 -c "import json;print(' '.join(c['property_id'] for c in json.load(open('MANIFEST.json'))['checks']))")
for s in ${SEEDS:-1 2 3 4 5 6}; do
  for p in $props; do
    out=$(VERIF_SEED=$s ./check $p 2>&1); rc=$?
    v=$(echo "$out" | grep -E "^VIOLATION|TOOL-FAILURE" | head -1)
    echo "seed=$s $p rc=$rc $v"
  done
done

"""./check Cnn [--tier quick|thorough] [--replay FILE]"""

from __future__ import annotations

import argparse
import importlib
import json
import os
import sys
import traceback
from pathlib import Path

sys.dont_write_bytecode = True
sys.path.insert(0, str(Path(__file__).resolve().parent))

import common  # noqa: E402


def main() -> int:
    ap = argparse.ArgumentParser()
    ap.add_argument("prop")
    ap.add_argument("--tier", default=os.environ.get("VERIF_TIER", "quick"), choices=["quick", "thorough"])
    ap.add_argument("--replay", default=None)
    ap.add_argument("--skip-lean", action="store_true", help="development only: skip stage 1")
    args = ap.parse_args()
    seed = int(os.environ.get("VERIF_SEED", "0") or 0)
    common.use_repo()
    try:
        mod = importlib.import_module(f"props.{args.prop.lower()}")
    except ModuleNotFoundError as e:
        print(f"no check for {args.prop}: {e}", file=sys.stderr)
        return 2
    run = lean = None
    try:
        if args.replay:
            return mod.replay(json.loads(Path(args.replay).read_text()))
        run = common.Run(args.prop, args.tier, seed)
        if args.skip_lean:
            # development runs write their evidence next to, not over, the registered evidence files
            common.EVIDENCE = common.VERIF / "evidence" / "dev"
            lean = {"ok": True, "failures": [], "obligations": [], "discharged": [], "axioms": {}, "checker_cmd": "skipped", "driver_ok": True}
        else:
            lean = common.lean_stage(args.prop, args.tier)
        return mod.check(run, lean)
    except common.ToolFailure as e:
        print(f"TOOL-FAILURE {args.prop}: {e}", file=sys.stderr)
        return 2
    except subprocess_timeout() as e:  # pragma: no cover
        print(f"TOOL-FAILURE {args.prop}: timeout {e}", file=sys.stderr)
        return 2
    except Exception:
        traceback.print_exc()
        if run is not None and lean is not None and run.violations:
            # a library that violates the property can also derail the harness later on (object maps that no longer fit):
            # the violations found before, with their failing inputs, are the verdict
            run.notes.append("the harness crashed after property violations had been found; they are reported")
            try:
                return run.finish(lean, getattr(mod, "LEVEL", "proof"), getattr(mod, "ASSUME", []), search=None)
            except Exception:  # noqa: BLE001
                traceback.print_exc()
        print(f"TOOL-FAILURE {args.prop}: harness crashed", file=sys.stderr)
        return 2


def subprocess_timeout():
    import subprocess

    return subprocess.TimeoutExpired


if __name__ == "__main__":
    sys.exit(main())

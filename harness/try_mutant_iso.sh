#!/bin/bash
# maintenance helper (not a registered command): run checks against a seeded change WITHOUT touching /repo or /verif:
# a scratch copy of /verif (with its Lean build) is pointed at the worktree that has the patch applied.
# usage: try_mutant_iso.sh <worktree with the patch applied> <Cnn> [<Cnn> ...]
set -u
wt="$1"; shift
name=$(basename "$wt")
scratch=/root/mt/$name
rm -rf "$scratch"; mkdir -p /root/mt
cp -r /verif "$scratch"
for c in "$@"; do
  out=$(cd "$scratch" && VERIF_REPO="$wt" ./check "$c" 2>&1 | grep -E "^VIOLATION|TOOL-FAILURE" | head -3)
  echo "[$name $c] ${out:-<no violation reported>}"
done
rm -rf "$scratch"

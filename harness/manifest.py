"""Regenerates MANIFEST.json from the table below (run by hand after adding a check)."""
import json
from pathlib import Path

VERIF = Path(__file__).resolve().parent.parent
ids = [json.loads(l)["id"] for l in (VERIF / "properties.jsonl").read_text().splitlines() if l.strip()]

TB = ("Trusted: Lean 4.33 kernel; axioms of every property theorem printed per run and required to be within "
      "{propext, Classical.choice, Quot.sound}; no sorry/native_decide/own axioms (grep per run); the translator "
      "harness/gen_tables.py; the correspondence harness, generators and the Lean driver's JSON line protocol; "
      "lxml/libxml2 and CPython are modelled, not verified. ")

CLAIMED = {
    "C03": dict(
        text="Proof: PrettySerializer and TextWrappingSerializer are modelled in Lean (Model/Pretty.lean, Model/Wrapping.lean: "
             "writer with offset tracking and newline stripping, line fitting, _serialize_text/_over_lines/"
             "_consolidate_text_lines, _required_space*, bounded _fetch_following, the two whitespace-legitimacy predicates, "
             "xml:space handling incl. the line-fitting serializer's flags). Proved for every whitespace-reduced tree, every "
             "whitespace indentation, alignment on/off and every accepted prefix map: reading the output back (C02 reader) "
             "and reducing whitespace (C07 reduction) gives the original tree - for width 0 (c03_pretty_transparent) and for "
             "every width >= 1 (c03_wrapped_transparent_partial, under the one hypothesis that the indentation string "
             "contains no line break: the unrestricted statement is false, counterexample kept and recorded as open finding "
             "newline-in-indentation; the run is proved to terminate with an output for every tag root and covering prefix "
             "map, so the statement is unconditional: c03_wrapped_transparent_total); inserted layout is whitespace only; non-whitespace characters are unaltered; "
             "xml:space=preserve subtrees are written by the plain serializer without layout. Tie to code: exact output string "
             "of the real serializers == compiled model for reduced mixed-content trees x 7 indentations x 19 widths x "
             "alignment x namespaces, from the root and from subtrees, plus a stream of xml:space nestings below inline "
             "elements; property oracle: Document(output, reduce_whitespace=True) equals the original.",
        note=TB + "Two defects were found by the proof attempt for the wrapping model (counterexamples from the model, replayed "
             "on the implementation): indentation-written-mid-line (fixed, d23109d) and newline-in-indentation (open). Fixed "
             "earlier: wrapping looked beyond the serialized subtree (8870f79). Fuel: the wrapping model recurses on fuel; "
             "that the budget 8*size+32 always suffices and the run always ends in an output is proved "
             "(c03_wrapped_fuel_suffices, c03_wrapped_total, c03_wrapped_transparent_total; measured need is about 5*size).",
        technique="Lean 4 theorems (laid-out tree read back by the C02 reader and reduced by the C07 reduction; Hoare-style partial correctness of the writer state machine) + byte-exact differential correspondence of both serializer models",
        design="3/C03",
    ),
    "C04": dict(
        text="Proof-partial: _WrapperCache.__gc_callback__ is modelled in Lean over an abstract cache (wrappers, head and "
             "appended text nodes, references held by the program vs structural references; thresholds read from the source "
             "on every run). Proved for every cache state: the callback keeps a wrapper iff the program references the node, "
             "its document or any text node at its data/tail position (c04_keeps_iff_referenced); referenced objects stay "
             "cached untouched and in order; an evicted wrapper is unreferenced and leaves its element with exactly the text "
             "its text nodes showed (content stable, coalescing only of unreferenced nodes); nothing is left when nothing is "
             "referenced; a held lock makes a collection a no-op; idempotence. Tie to code: before every forced collection "
             "the real cache with the harness's holds is handed to the compiled model and survivors + folded texts compared; "
             "property oracle on edit histories with random holds (text node without its element, appended node without "
             "predecessors, root without document, document without root) under forced / in-call (threshold 1) / no "
             "collections: content == plain-tree mirror up to coalescing of unreferenced text, held objects are what "
             "navigation returns, cache empty after release, no exception escapes the callback. Three further streams place "
             "collections where thresholds rarely do: every applicable single editing call on small mixed-content documents "
             "under allocation threshold 1; a held text node that is emptied, collected around and used again; and index "
             "arguments that are int subclasses firing gc.collect() at the k-th arithmetic/comparison inside the call (both "
             "readings of an index - before/after coalescing - are accepted). The lock is a counter (translator obligation "
             "c04_lock_is_counter over __init__/__enter__/__exit__) and for every properly nested use of `with _wrapper_cache:` "
             "it equals the number of open blocks, so collections stay off until the outermost block ends "
             "(c04_lock_counts_open_blocks, with c04_locked_noop); no generator of the library yields inside such a block "
             "(translator obligation c04_lock_never_held_across_yield), so the lock is never held while an iterator is "
             "suspended; a stream holds partially consumed iterators of seven kinds while another document is released and "
             "collected.",
        note=TB + "Partial: when CPython collects and which temporaries library frames hold is runtime behaviour - explored "
             "(forced, threshold 1), not modelled. Fixed findings: head-text-node-only (3993e00), "
             "detach-retain-reordered-by-collection (cf2d205), index-lookups-across-a-collection (141256e).",
        technique="Lean 4 theorems over a reference-count model of the cache callback + differential correspondence on real cache snapshots + timing exploration",
        design="3/C04",
    ),
    "C12": dict(
        text="Proof-partial: Document.__serialize is modelled in Lean (declaration with the upper-cased label, prologue, root, "
             "epilogue, a newline separator exactly for formatting serializers) with the reading side on the same pieces; "
             "proved for every number of comments/PIs and both separator modes: the output starts with the declaration and "
             "the declared label is the requested one up to ASCII case; the constructs appear completely and in order; "
             "reading back yields label, prologue, root string and epilogue (c12_read_back); composed with C02 the plain "
             "document round-trips to the normalised root (c12_document_roundtrip); the root setter keeps prologue and "
             "epilogue (spec and the two-stack mechanism _copy_root_siblings); the parser options remove exactly the "
             "comments / PIs at every depth, in order (c12_drop_exact). Byte level (Model/Codec.lean, Props/C12Codec.lean): "
             "UTF-8, UTF-16 (LE/BE/with BOM), Latin-1 and ASCII encoders and strict decoders, io.TextIOWrapper's newline "
             "translation and XML end-of-line normalisation are modelled; proved for every string: decode(encode s) = s for "
             "every codec, an encoding fails exactly when some character is not representable, the decoders accept exactly "
             "the encoders' outputs (no overlong forms, surrogates, truncation), for every newline option and line separator "
             "a text without CR is read back unchanged after translation, encoding, decoding and end-of-line normalisation "
             "(c12_bytes_roundtrip, c12_write_read; a literal CR is not preserved: counterexample kept), an ASCII "
             "prefix is byte-transparent in the ASCII-compatible codecs, and the two levels are connected: the bytes of the "
             "whole document text read back into that text and its parts (c12_document_bytes_roundtrip) and begin with the "
             "code points of the declaration naming the requested label (c12_document_bytes_start_with_declaration). Tie to code: bytes of "
             "Document.save/write and str(Document) for generated documents x 11 encoding labels x 5 newline settings x 7 "
             "format options == model text, written by the Lean codec model (and, independently, newline-translated and "
             "encoded by Python's codec), and the Lean decoder + end-of-line normalisation reads the real bytes back into "
             "the model's text; property oracle: the bytes are re-read by delb and by lxml and compared with root, prologue "
             "and epilogue, also for a second serialization after comments/PIs were added next to the root through the node "
             "API; root replacement (another node, the same node) and parser options on the implementation == model.",
        note=TB + "Partial: the codecs of CPython and libxml2/iconv themselves and io.TextIOWrapper are modelled (and compared "
             "per case), not verified; only the codecs utf-8, utf-16, iso-8859-1 and ascii are modelled. Which labels a "
             "reader understands is outside the model: open finding python-only-encoding-label (Python spellings such as "
             "'latin-1' or 'utf_8' are copied into the declaration and cannot be read back). The root's own formatted "
             "serialization is the subject of C03/C19 and enters the document model as a string.",
        technique="Lean 4 theorems (document layer: order, separators, read-back, parser options; byte layer: codec and newline round trips) + differential correspondence on written bytes",
        design="3/C12",
    ),
    "C11": dict(
        text="Proof: TagAttributes/Attribute over lxml's store are modelled in Lean (Clark keys, in-scope default namespace, "
             "the cache of Attribute objects per store key, __resolve_accessor, _etree_key, __reported_name, "
             "__getitem__/__setitem__/__delitem__/__iter__/__len__/get/__contains__/__eq__, update/pop/popitem/clear/"
             "setdefault, Attribute.value, _set_new_key). Proved for every state: the three accessor forms of one attribute "
             "reach the same store entry and different attributes different entries; lookup, membership, assignment, update, "
             "deletion (KeyError iff missing), iteration and length are those of a dictionary keyed by canonical names. "
             "Proved for every reachable state (invariant Inv: the cached object of a key is an attached object of that key, "
             "every attached object is the cached one of its key, cached keys are stored, ids unique, removed objects have a "
             "value; holds initially, preserved by every operation): an attached attribute object shows and writes exactly the "
             "dictionary entry of its name; an assignment through any spelling keeps it and a lookup returns it again; a "
             "removal through any accessor that denotes the attribute detaches it with the value it showed and leaves all "
             "other objects alone; a rename moves the dictionary entry (another spelling: no change), the object stays "
             "attached under the new name with its value, a superseded attribute's object is detached with its value. "
             "Equality of two collections (elements with different namespaces in scope) is proved equivalent to their "
             "dictionaries of reported names having the same entries; comparison with a plain mapping to dictionary lookup "
             "of every key (and to equality of entries when the keys denote different attributes). Names given as strings: "
             "deconstruct_clark_notation is modelled (deconstructClark) and probed on /repo on every run (translator "
             "obligation c11_clark_probes); '{ns}name' reads as the pair (ns, name) for every namespace incl. the empty one, "
             "a string without a leading brace is a local name, and the Clark string reaches the same entry as the pair on "
             "every element (c11_clark_notation, c11_plain_name, c11_clark_string_same_entry). Tie to code: random "
             "operation sequences through the mapping, node subscripts and held Attribute objects on nine element contexts, "
             "real results == compiled model after every step; pairs of collections compared in both orders; a plain dict "
             "and a record per held object as property oracle, checked after every step.",
        note=TB + "Elements are not re-parented during a sequence (attribute keys after re-parenting across "
             "default-namespace scopes: finding recorded under C01/C10). The Attribute objects that __eq__/items() create "
             "and cache without handing them out are left out of the model (not observable). Open finding "
             "prefixed-attribute-in-default-namespace: an attribute written with a prefix bound to the URI of the default "
             "namespace in scope is iterated but unreachable (the theorems' hypothesis storeOk fails for that parsed "
             "element); replayed as its own corpus case, no generated stream enters that region. Former findings "
             "stale-attribute-view and rename-to-alias-deletes are fixed (b73c3a9) and replayed as corpus cases.",
        technique="Lean 4 refinement theorems (store vs canonical dictionary; view-cache invariant over reachable states; equality as dictionary equivalence) + differential correspondence",
        design="3/C11",
    ),
    "C14": dict(
        text="Proof: for every tree and tag node the expression location_path denotes (`/*` followed by `*[position()=k]` "
             "steps, k counted among tag siblings) evaluates - from any context node, with any prefix map - to exactly that "
             "node (c14_selects_self, over the C06 evaluator model); different tag nodes have different expressions and "
             "different strings (c14_injective, c14_string_injective); the path consists only of indexed wildcard child steps "
             "(c14_shape). The string is tied to the expression by a theorem as well: the tokenizer + parser model of C16 turns "
             "location_path into exactly locationPathAst, for every path whose printed indexes have at most "
             "sys.get_int_max_str_digits() = 4300 digits, and only for those (c14_parse_location_path_partial/_iff/_too_long, "
             "c14_string_selects_self_partial; the unconditional statement is false in the model - a parent with 10^4300 tag "
             "children - and the counterexample is kept as a theorem). Tie to code: location_path of every tag node of forests reached by edit histories == model "
             "string; evaluating it on the implementation from random context nodes under six ambient filter settings "
             "returns exactly the node; strings pairwise distinct; independent of ambient filters.",
        note=TB + "The parse theorem carries the hypothesis that no printed index has more than 4300 digits (the parser refuses "
             "longer number literals: Python's int() limit, generated into the tables); a tree with 10^4300 siblings cannot be "
             "built, the refusal of such a literal by the real parser is part of the C16 correspondence.",
        technique="Lean 4 theorems over the evaluator model (induction on the path) + differential correspondence",
        design="3/C14",
    ),
    "C15": dict(
        text="Proof: fetch_or_create_by_xpath/_create_by_xpath and _is_unambiguously_locatable/_derived_attributes are "
             "modelled in Lean over the evaluator model; proved: non-locatable expressions are rejected, a single match is "
             "returned with the tree unchanged, several matches give AmbiguousTreeError, an unbound prefix is reported before "
             "anything is created (c15_unbound_prefix_rejected), deleting the nodes a call added gives the old tree back (old "
             "nodes untouched), and - for paths whose attribute equalities are consistent after prefix resolution, the "
             "property's 'non-contradictory predicates' - the same expression afterwards selects exactly the returned node and "
             "a second call is a no-op (c15_created_is_selected_noempty_partial, c15_idempotent_noempty_partial: the only extra "
             "hypothesis is that no prefix is the empty string, which the parser never produces; counterexamples kept). What is "
             "added is proved to be the minimal missing branch (c15_added_branch and its projections c15_added_is_one_chain, "
             "c15_added_count_minimal, c15_added_names_and_attributes, c15_added_position): the new nodes are exactly one "
             "chain of tag nodes with the next identities, inserted below the node d that the longest matching prefix of the "
             "path selects in the old tree (the next step selects nothing below d), one node per missing step, each with the "
             "step's local name, the namespace its prefix resolves to and exactly the attributes derived from its predicates, "
             "the last one is the returned node; the chain is placed behind d's last tag or text child (a trailing comment/PI "
             "stays behind it: counterexample to 'last child' kept). Tie to "
             "code: the real call on generated trees x locatable paths (relative/absolute, prefixed/unprefixed, 0-4 predicates, "
             "with/without/empty/prefix-only namespaces) == compiled model (tree with identities, returned node, error class); "
             "plus a planted stream (one complete match beside elements that match only a leading part of the path); property "
             "oracle on the implementation (re-query, second call, old part unchanged, rejected calls change nothing, exactly "
             "one match before the call -> that node is returned).",
        note=TB + "Calls run under the library's default ambient filters. Four findings fixed in /repo (0503582, 0e015a4, "
             "7ceef81, d101191); none open.",
        technique="Lean 4 theorems (loop invariant of _create_by_xpath over the evaluator model) + differential correspondence",
        design="3/C15",
    ),
    "C06": dict(
        text="Proof-partial: the evaluator (axis generators by document-order position, node tests with prefix resolution, "
             "candidate list and per-predicate (position,size) renumbering, per-step and per-expression de-duplication, "
             "Python value semantics of the predicate operators) is modelled in Lean (Model/XPath/Eval.lean); proved for every "
             "tree: document order lists each address once and extends the ancestor relation; each axis yields exactly its "
             "axis relation in axis order (with delb's reading of following/preceding); a step selects a subsequence of its "
             "axis passing test and predicates, `[k]` is the proximity position; steps compose as unions without duplicates; "
             "expression results are duplicate-free unions; in_document_order sorts by address (Props/C06.lean). A declarative "
             "XPath 1.0 semantics of location paths in the wording of the recommendation (Model/XPath/Spec.lean: axes as "
             "relations over the nodes of the tree, proximity order, node tests on expanded names, predicate-by-predicate "
             "filtering with context position and size, composition as union over context nodes, unions of paths; the three "
             "established deviations built in and marked) is proved equal to the mechanism: per axis and per step as lists "
             "(same nodes, same order), per path and expression as duplicate-free lists with the same members, "
             "in_document_order as the document-order listing of the denotation (c06_axis_eq_denotation, "
             "c06_step_eq_denotation, c06_path_eq_denotation, c06_path_denotation_chain, c06_expr_eq_denotation), and the "
             "mechanism is total exactly outside the recorded error sites (c06_step_total, c06_path_total, c06_expr_total). "
             "The equality carries one hypothesis, DocTypeOk: no step applies a node-type test other than node() to the "
             "document node - that is the open finding document-node-type-tests, kept as a proved counterexample. The VALUE "
             "semantics of predicates is specified separately (Model/XPath/PredSpec.lean: XPath 1.0 sections 3.4/4 over "
             "node-set-of-attribute / string / number / boolean values, independent of the mechanism's value type) and proved "
             "equal to the mechanism exactly on the fragment PredSafe, whose eight decidable conditions each name one "
             "deviation (c06_pred_eq_xpath1_partial, c06_predHolds_eq_xpath1_partial, lifted to steps: "
             "c06_step_eq_xpath1_partial); outside it the statement is false, with one proved counterexample per condition "
             "(c06_pred_deviation_*): the four recorded value findings and two that the proof turned up (and/or over "
             "non-boolean operands, a boolean compared with a non-boolean - both confirmed against lxml and recorded as open "
             "findings). So 'equals XPath 1.0' is a theorem on the safe fragment and stays partial beyond it. Tie to code: result handle lists (order included) of the real xpath() "
             "== compiled model for grammar-generated expressions x documents x context nodes x prefix maps; a safe "
             "sub-grammar is additionally compared with lxml's XPath engine; CSS selectors vs the cssselect translation "
             "evaluated by lxml.",
        note=TB + "Reference engine: lxml/libxml2. Known findings (attribute comparison of absent/empty attributes, "
             "non-literal number predicates, `..`/axes from the document node, node-type tests on the document node, "
             "attribute functions on non-tag candidates, and/or over non-boolean operands, booleans compared with "
             "non-booleans) are excluded from the generated stream and replayed separately. predSpec leaves comparisons that "
             "need number() of a string (and concat/text) undefined; the theorem speaks about predicates it defines.",
        technique="Lean 4 theorems on the evaluator model (axes, proximity positions, union/dedup, ordering; equality with a declarative XPath 1.0 location-path semantics) + differential correspondence + lxml as reference oracle",
        design="3/C06",
    ),
    "C08": dict(
        text="Proof over a regenerated model: harness/gen_skeleton.py re-derives from /repo's source, on every run, a summary "
             "of every function's use of altered_default_filters (generator?, decorated?, yields inside an own frame, "
             "truthiness tests of parent nodes outside an own frame); Lean decides for these summaries that no function "
             "yields inside an own frame and that the functions the property lists contain no unguarded ambient read, and "
             "proves for the stack machine that balanced segments restore the stack, that under every interleaving of "
             "library calls / generator resumptions with client blocks the caller's view is the caller's own, and that "
             "guarded calls read the same values for every ambient stack (Props/C08.lean). Exploration on the "
             "implementation: documents x 8 ambient settings x the listed operations compared across settings with "
             "stack/tree/identity checks, and random schedules over 12 iterator kinds with the stack inspected after every step.",
        note=TB + "The extractor sees `altered_default_filters` syntactically and flags truthiness of parent-like names; its "
             "completeness is trusted and cross-checked by the dynamic exploration. 'No side effects on content/identity' is "
             "checked on the implementation only (functional models cannot mutate).",
        technique="Lean 4 theorems over translator-generated function summaries (decide) and a stack machine + dynamic exploration of interleavings",
        design="3/C08",
    ),
    "C05": dict(
        text="Proof: sibling walking on the slot/chain encoding (models of iterate_children's start, "
             "_fetch_following_sibling and fetch_preceding_sibling for DATA/TAIL/APPENDED text nodes and element wrappers) "
             "enumerates exactly the visible child list in order, following/preceding sibling are inverse and move one "
             "index; the explicit-stack loop of iterate_descendants yields the pre-order; ancestors/depth are the parent "
             "chain; preceding-reversed ++ node ++ following is the document order; last_descendant, full_text and the three "
             "traversers are characterised (Props/C05.lean). Filters: the filtered methods are modelled in the shape of the code "
             "(Model/NavFilter.lean: the loops of fetch/iterate_following_siblings, the recursion of fetch_preceding_sibling, "
             "iterate_children, the explicit-stack iterate_descendants with a guarded yield, iterate_ancestors, "
             "iterate_following/preceding, first/last child, len, item access incl. negative indexes, index) and proved, for "
             "every predicate and every tree, to yield exactly the unfiltered sequence restricted to matching nodes, fetch_* = "
             "first match, index = number of matching earlier siblings, and the filtered partition of the document order "
             "(c05_filtered_children, _index, _following_siblings, _preceding_siblings, _sibling_pointer, _descendants, "
             "_ancestors, _following, _preceding, _partition). Tie to code: every relation of every node of forests reached by "
             "random edit histories on the real objects == compiled model == independent Python computation; filtered "
             "iterators == restricted unfiltered ones for four type filters; under two of seven kind sets as default filters "
             "every filtered relation of every node == the filtered model; document-order sort of random tag subsets.",
        note=TB + "No ambient filters unless the filter is the subject; trees reachable by Legal histories. Where the code does "
             "not simply restrict (modelled as it is): iterate_ancestors applies the given filters only, not the default ones; "
             "index of a node hidden by the default filters raises InvalidCodePath; last_descendant follows filtered last "
             "children and never enters a hidden node.",
        technique="Lean 4 theorems (walk invariants over the encoding, loop invariant for the explicit stack, partition by induction on paths) + differential correspondence",
        design="3/C05",
    ),
    "C09": dict(
        text="Proof: the guards of the editing API (attachment check of _prepare_new_relative, both "
             "_validate_sibling_operation variants, detach/replace/insert/__setitem__/__delitem__ guards, comment-content and "
             "PI-target validators) are modelled in Lean and proved to reject exactly the declaratively illegal calls with the "
             "class the code uses, to pass every Legal edit, and the validators to accept exactly well-formed comments / "
             "non-reserved targets (Props/C09.lean). That a rejected call leaves the trees untouched concerns the ORDER of "
             "checks and mutations in the Python methods: harness/gen_guard_skeleton.py re-derives from /repo's source, on "
             "every run, the control-flow paths of all 17 editing entry points as sequences of guard / mutate / call events "
             "(Generated/GuardSkeleton.lean); Lean proves for the event machine that on a path of the shape guards-first a "
             "rejection at an own guard happens before any change (c09_rejected_before_any_change) and decides that every "
             "path of the current source has that shape for single-node calls, up to four named (caller, callee) pairs whose "
             "later checks cannot fire (c09_source_guards_first, c09_source_rejections_change_nothing, "
             "c09_source_checkers_pure). In addition it is explored on the implementation: every kind of illegal single-node "
             "call on forests reached by edit histories (also item assignment at existing positions, calls under the default "
             "filters, root assignments) - exception class vs the guard model and full before/after dumps of all trees.",
        note=TB + "The event summary is syntactic (named mutators, checkers and state attributes; if/else alternatives, loop "
             "bodies once): its completeness is trusted and cross-checked by the before/after exploration; the four allowed "
             "later calls (replace_with -> detach; TagNode.detach -> detach of children / insert_children / append_children) "
             "are justified in Model/GuardOrder.lean and exercised by the C01 histories. Fixed: a document's root could be moved "
             "into another tree (313e3eb; c09_document_root_not_offerable). Known finding: node[0] = "
             "attached_node on an empty tag node (pinned by the suite).",
        technique="Lean 4 theorems over the guard model and over translator-generated check/mutation event paths (decide) + exhaustive-by-kind exploration of illegal calls on the implementation with before/after dumps",
        design="3/C09",
    ),
    "C10": dict(
        text="Proof: deep clone = same tree with fresh identities numbered in document order (with c01_clone for the "
             "mechanism), shallow clone keeps name and attributes only, cloning appends one parentless group and changes "
             "nothing else, every edit leaves untouched groups unchanged (frame) hence histories on one side are invisible on "
             "the other, _copy_root_siblings' two stacks reproduce prologue and epilogue in order, and Document.clone (deep clone of the "
             "root, then a copy of every root sibling) gives the same prologue, root and epilogue with exactly the next "
             "fresh identities, none shared with the original (c10_document_clone) (Props/C10.lean). Tie to "
             "code: clones (clone deep/shallow, copy, deepcopy, Document.clone) of nodes of every kind in forests reached by "
             "edit histories: equality, freshness of every object, no tail, then random edits confined to one side with the "
             "other side re-dumped; compiled clone model compared per case.",
        note=TB + "Cyclic collector off during a case (segmentation of unreferenced clones is C04's allowance); documents "
             "without attributes under a default namespace (C11 finding).",
        technique="Lean 4 theorems (clone numbering, frame/independence by induction over histories) + differential correspondence",
        design="3/C10",
    ),
    "C01": dict(
        text="Proof: delb's text-node mechanism (TextNode objects chained on lxml's text/tail slots; DATA/TAIL/APPENDED cases "
             "of _add_following_sibling, _add_preceding_sibling, _add_next_element_wrapping_node, _prepend_text_node, "
             "_insert_text_node_as_next_appended, both detach methods, __add_first_child, content assignment, "
             "merge_text_nodes, clone) is modelled in Lean (Model/Edit.lean) next to a plain ordered tree with node identities; "
             "proved: every mechanism step refines the list splice on the abstracted tree (c01_step), lifted to all histories "
             "(c01_history), errors agree, merge/clone refine their specifications, and moving nodes permutes the text nodes "
             "without loss (c01_no_text_lost). The public API calls themselves - add_following_siblings, "
             "add_preceding_siblings, append_children, prepend_children, insert_children, detach(retain_child_nodes=True), "
             "replace_with, del node[i], each with any number of offered nodes - are total definitions over the primitive "
             "steps (Model/EditApi.lean, the code the compiled driver runs), proved to refine from the mechanism to the plain "
             "tree (c01_api_refines, c01_api_history) and to equal the documented list splice for every number of items and "
             "every tree (c01_api_append, _insert, _add_following, _add_preceding [offered nodes land in reverse order], "
             "_detach_retain, _replace, _delitem; index errors exactly when out of range). Tie to code: random histories of public API calls on real documents; after every "
             "call the real forest with object identities as handles == compiled mechanism model == Lean spec == independent "
             "Python plain-tree mirror.",
        note=TB + "Legal edits only (non-empty text payloads, no cycles, offered nodes detached; rejections are C09); no ambient "
             "filters; all nodes referenced and the cyclic collector off during a history (C04 covers collection). Materialisation "
             "of clones and tag() definitions offered to a call stays in the driver (the API theorems take offered nodes as "
             "parentless groups or fresh text); detach(retain_child_nodes=True) detaches the children before the node in the "
             "model, the code the node first (same resulting forest). Recorded findings "
             "outside this guard: empty text payloads, attributes of nodes moved across default-namespace scopes.",
        technique="Lean 4 refinement theorem (mechanism model -> plain tree spec, induction over paths and histories) + differential correspondence on edit histories",
        design="3/C01",
    ),
    "C02": dict(
        text="Proof: the plain Serializer (prefix collection, declarations, _serialize_tag/serialize_node, attribute sorting, "
             "escaping) emits markup tokens in the Lean model (Model/Serialize.lean); proved: escaping leaves no markup "
             "character and is undone by entity resolution (tables regenerated from /repo), and for every serializable tree, "
             "every accepted caller mapping and every iteration order of the namespace sets a namespace-aware tree builder "
             "rebuilds the emitted tokens into the original tree with text merged (c02_serialize_roundtrip, composing C13). "
             "String level (Model/Scan.lean, Props/C02Scan.lean): an XML 1.0 scanner for the emitted syntax (start/end tags, "
             "quoted attributes with reference resolution, comments, PIs, character data; rejects '<' and stray '&' in "
             "values, duplicate attributes, ']]>', '--' in comments, unterminated constructs, non-XML characters) is proved "
             "to read the rendered string of every well-formed token list back into those tokens (c02_scan_render), the "
             "emitted tokens of every serializable tree with XML names are well-formed (c02_scan_emitted, prefix names from "
             "collect: c02_scan_collect_names), hence the output STRING is well-formed and scanning + building it gives the "
             "original tree (c02_scan_serialize_roundtrip, c02_scan_serialize_wellformed). Tie to code: "
             "TagNode.serialize(namespaces=...) string == render of the model's tokens exactly, Namespaces normalisation == "
             "model, the Lean scanner reads every real output string into the original tree, and the implementation's output "
             "re-read with delb and lxml equals the original tree.",
        note=TB + "The XML reader of the implementation is lxml/libxml2 (re-parsing per case; the Lean scanner was compared "
             "with lxml on 23 000 mutated documents by harness/dev/scan_vs_lxml). Input-domain exclusions, each with a proved "
             "counterexample in Props/C02Scan.lean: CR in text, TAB/LF/CR in attribute values, white space at the start of a "
             "processing instruction's content (XML cannot represent them literally and the serializer writes them "
             "unescaped). Names are checked against delimiters, not against the NameStartChar/NameChar classes. Unprefixed "
             "attributes are read as delb documents it (default namespace in scope).",
        technique="Lean 4 theorems (escape round trip, token-level serialize/build round trip, string-level scanner round trip) + translator-generated tables + differential correspondence",
        design="3/C02",
    ),
    "C13": dict(
        text="Proof: Serializer._collect_prefixes with __redeclare_empty_prefix and _new_namespace_declaration, "
             "Namespaces.__normalize_declarations/lookup_prefix and the declaration emission of serialize_root are modelled in "
             "Lean; proved for every tree, every accepted caller mapping and every iteration order of the per-node namespace "
             "sets: the code's assertions are unreachable, every namespace gets exactly one prefix, different namespaces "
             "different prefixes, the empty namespace only the empty prefix, caller-bound namespaces keep the caller's prefix, "
             "xml/xmlns are never declared, declarations sit on the outermost element only. Tie to code: declared prefixes "
             "found in the real output vs the model's prefix map; invalid mappings rejected alike; C13 oracle on every output.",
        note=TB + "Prefix collection is proved total (c13_collect_total: it succeeds whenever the number of distinct "
             "namespaces of the tree plus the size of the mapping is at most 65538; the only failure is the code's "
             "NotImplementedError after 65536 generated prefixes, shown reachable by c13_collect_exhausted) - hence plain, "
             "indented and wrapped serialization always end in an output (c02_serialize_total, c02_serialize_roundtrip_total, "
             "c03_serialize_pretty_total, c03_serialize_wrapped_total'); the iteration order of Python sets is an oracle input (observed order "
             "passed to the model, theorems quantify over all orders).",
        technique="Lean 4 invariant proof over the prefix fold (all orders) + differential correspondence",
        design="3/C13",
    ),
    "C16": dict(
        text="Proof: tokenizer.py, parser.py and the validating AST constructors are modelled line by line in Lean "
             "(Model/XPath/Tokenizer.lean, Parser.lean) with an explicit `.pyError` outcome at every Python index/lookup/assert "
             "site and fuel for every loop; proved for every string: the model never yields `.pyError`, never runs out of fuel "
             "(termination), every error carries a position, and that position lies inside the expression (Props/C16.lean). "
             "Token classes, literal tokens, function arities, axis attribute names and node-type tests are regenerated from "
             "/repo on every run. Tie to code: outcome class, position, rendered message and AST of the real parse() vs the "
             "compiled model on token soups, truncations and mutations of valid expressions, bracket nests. Caching: an lru "
             "cache in front of a function is modelled (Model/Cache.lean) and proved unobservable for every history of calls "
             "and cache_clear()s and every maxsize - every call answers what the function answers, errors are never stored, "
             "every reachable cache holds only values of the function and at most maxsize of them (c16_cache_transparent, "
             "c16_cache_sound, c16_cache_bounded, c16_cached_parse_is_fresh); that the shared objects handed out are never "
             "changed is a translator obligation re-derived from /repo's source on every run (harness/gen_cache_skeleton.py "
             "-> Generated/CacheSkeleton.lean: every lru_cache/cache-decorated function of the XPath package stores into "
             "nothing it receives; no function of _delb/xpath/ast.py outside the constructors stores into an expression "
             "object, memoised properties included: c16_cache_sites, c16_ast_immutable; no function of the tokenizer and the "
             "parser stores into anything it receives: c16_pipeline_pure). Cache-order "
             "independence is also exercised on the implementation (cold/warm lru caches, random orders, evaluate after "
             "parse, evaluation in other namespace contexts before).",
        note=TB + "CPython resource limits (recursion depth for very deep bracket nesting) are outside the model; strings are "
             "sequences of Unicode scalar values. The immutability scan is syntactic (assignments, deletions and mutating "
             "container calls rooted in self, a parameter or a non-local name); functools.lru_cache itself is modelled, not "
             "verified.",
        technique="Lean 4 theorems over a line-by-line parser model (induction on fuel, token-tree well-formedness invariant) + translator-generated tables + differential correspondence",
        design="3/C16",
    ),
    "C18": dict(
        text="Proof: PrettySerializer (width 0) is modelled in Lean (Model/Pretty.lean: _serialize_tag, _handle_child_nodes, "
             "_serialize_child_nodes, serialize_node, _serialize_text, both whitespace-legitimacy predicates, aligned "
             "attributes) and proved to write, for every data-style tree, every non-empty indentation string and both "
             "alignment settings, exactly what a straightforward recursive pretty printer writes (Props/C18.lean); the layout sentences of the property are theorems about that "
             "reference output: aligned attributes are written one per line after the tag-name line, padded with spaces so "
             "that all equal signs of a tag sit in one column (c18_aligned_equal_signs, c18_equal_sign_column, "
             "c18_attribute_lines_count; alignment applies from two attributes on, the root's namespace declarations count), "
             "a tag with structural children is start tag, each child at depth+1, end tag on lines of their own, an empty "
             "tag is self-closed, a one-text leaf is three lines (c18_children_on_own_lines, c18_leaf_text_lines, "
             "c18_child_lines_indented, c18_serializer_start_tag). Tie to "
             "code: three-way exact string equality implementation = model = reference printer (+ an independent Python "
             "reference printer) for generated data-style trees x indentation x alignment, from the root, from subtrees and "
             "as a document.",
        note=TB + "Data style as defined by `dataStyle` (nothing / one text / non-text nodes separated by single-space text "
             "nodes, no xml:space). Prefix assignment is the C13 model.",
        technique="Lean 4 theorem (mutual induction over nested trees) + differential correspondence impl vs Lean model vs reference printer",
        design="3/C18",
    ),
    "C17": dict(
        text="Proof: the recursion of compare_trees (class test, namespace, local name, TagAttributes.__eq__, len, zip of "
             "filtered children, leaf __eq__) is modelled in Lean (Model/Compare.lean) and proved, for all trees and all "
             "filter predicates, to answer 'equal' iff the visible trees are structurally equal (attributes as dictionaries), "
             "to be symmetric and reflexive in its verdict, and to report a pair at equal addresses that really differs in the "
             "reported aspect; in particular a tree compares equal to its deep clone (plain tree and slot/chain encoding: "
             "c17_clone_equal, c17_clone_equal_encoding) and to the tree read back from its own serialization "
             "(c17_reparsed_equal, c17_reserialized_equal; exact verdict without the normal-form hypothesis: "
             "c17_reparsed_verdict). Tie to code: the real compare_trees on (tree, point-mutated copy) pairs, both argument orders, "
             "six ambient filter settings vs the compiled model (verdict, difference kind, address).",
        note=TB + "Ambient filters are modelled as predicates on the node kind; attribute keys are unique per node (mapping).",
        technique="Lean 4 theorems (mutual induction over nested trees) + differential correspondence impl vs Lean model",
        design="3/C17",
    ),
    "C07": dict(
        text="Proof: the four-rule table of _reduce_whitespace_content and the traversal of "
             "_reduce_whitespace_of_descendants are modelled in Lean (Model/Whitespace.lean) next to a declarative "
             "specification of the TEI normal form; proved for every string/tree: implementation model = specification, "
             "idempotence on parser-shaped trees, skeleton and non-whitespace characters preserved, preserve-subtrees "
             "untouched, merge yields parser-shaped trees; generated-table obligation that regex \\s, str.strip and "
             "str.isspace agree. Tie to code: reduce_whitespace(), ParserOptions(reduce_whitespace=True) and TagNode.parse on "
             "generated and exhaustively enumerated documents vs the compiled Lean model (exact trees), plus an independent "
             "Python statement of the normal form evaluated on the implementation.",
        note=TB + "Whitespace is the set Python's \\s/strip/isspace agree on (generated table). Empty text nodes inside chains "
             "are kept out of the stream (C01 finding territory).",
        technique="Lean 4 theorems (induction over strings and nested trees) + differential correspondence impl vs Lean model",
        design="3/C07",
    ),
    "C19": dict(
        text="Proof: `_wrap_text` is modelled in Lean (Model/Wrap.lean) and proved equal to greedy fill over the word "
             "list for every width>=1 and every word sequence, with partition/width/greediness/indentation corollaries "
             "(Props/C19.lean). Tie to code: every run drives the real TextWrappingSerializer and the compiled Lean model "
             "on the same generated (words,width,indentation,depth) cases and requires identical text lines; the property "
             "itself is also evaluated on the implementation's output for each case.",
        note=TB + "Modelled scope: an element whose only child is text and that cannot be placed inline; the layout around "
             "the text lines belongs to C03/C18.",
        technique="Lean 4 theorem (induction over word list) + differential correspondence impl vs Lean model",
        design="3/C19",
    ),
}


def main():
    checks = []
    for pid in ids:
        if pid not in CLAIMED:
            continue
        c = CLAIMED[pid]
        checks.append({
            "property_id": pid,
            "quick_cmd": f"./check {pid} --tier quick",
            "thorough_cmd": f"./check {pid} --tier thorough",
            "evidence_file": f"evidence/{pid}.json",
            "replay_cmd_template": f"./check {pid} --replay {{path}}",
            "engine": "lean4-models+correspondence",
            "level_claimed": {"category": "proof", "text": c["text"], "design_ref": c["design"]},
            "level_note": c["note"],
            "technique": c["technique"],
        })
    m = {
        "version": 1,
        "setup_cmd": "cd lean && lake build",
        "hooks": {
            "guard": "DELB_VERIF",
            "enable": "no hooks in /repo: the checks import /repo's working tree directly (sys.path[0]=/repo); DELB_VERIF=1 is set but unused",
            "baseline_off_cmd": "cd /repo && /venv/bin/python -m pytest -ra -q -p no:cacheprovider --timeout=900",
            "source_commits": [],
            "add_only": True,
        },
        "engines": [{
            "name": "lean4-models+correspondence",
            "path": "lean/ (DelbModel library, Driver.lean), harness/",
            "serves_properties": sorted(CLAIMED),
            "kind_free_text": "Lean 4 models and theorems (lake build + axiom audit) tied to /repo by a translator for tables and by differential correspondence runs against the compiled model driver",
        }],
        "checks": checks,
        "not_applicable": [
            {"property_id": i, "reason": "check under construction (DESIGN.md section 7); not claimed yet"}
            for i in ids if i not in CLAIMED
        ],
        "notes": "See DESIGN.md. known_findings.json lists recorded and fixed defects.",
    }
    (VERIF / "MANIFEST.json").write_text(json.dumps(m, indent=1))


if __name__ == "__main__":
    main()

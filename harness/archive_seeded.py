#!/usr/bin/env python3
"""maintenance helper (not a registered command): confirm a seeded change and archive it under /verif/seeded/<id>/

usage: archive_seeded.py <id e.g. C18-1> <worktree dir with out/> <status text> <detected_by text>
Confirms: demo exits 0 on the unchanged tree (/repo) and non-zero with the patch applied (in the worktree, patch applied there),
and that the patch applies to /repo cleanly.
"""
import json, os, shutil, subprocess, sys
from pathlib import Path

sid, wt, status, detected = sys.argv[1:5]
out = Path(wt) / "out"
dst = Path("/verif/seeded") / sid
dst.mkdir(parents=True, exist_ok=True)
for f in ("patch.diff", "demo.py", "meta.json"):
    shutil.copy(out / f, dst / f)
env = dict(os.environ, PYTHONDONTWRITEBYTECODE="1")
# worktree must have the patch applied
subprocess.run(["git", "-C", wt, "checkout", "--", "."], check=True)
subprocess.run(["git", "-C", wt, "apply", str(dst / "patch.diff")], check=True)
changed = subprocess.run(["/venv/bin/python", str(dst / "demo.py")], env=dict(env, PYTHONPATH=wt), capture_output=True).returncode
clean = subprocess.run(["/venv/bin/python", str(dst / "demo.py")], env=dict(env, PYTHONPATH="/repo"), capture_output=True).returncode
applies = subprocess.run(["git", "-C", "/repo", "apply", "--check", str(dst / "patch.diff")]).returncode == 0
meta = json.loads((dst / "meta.json").read_text())
meta["confirmed"] = {
    "demo_on_changed_tree": f"exit {changed}",
    "demo_on_unchanged_tree": f"exit {clean}",
    "patch_applies_to_repo_head": applies,
    "suite": meta.get("tests_passed", "") + " (reported by the seeding run)",
    "check_run": f"git -C /repo apply seeded/{sid}/patch.diff; ./check {sid.split('-')[0]}; git -C /repo checkout -- .",
    "status": status,
    "detected_by": detected,
}
(dst / "meta.json").write_text(json.dumps(meta, indent=1, ensure_ascii=False))
print(sid, "changed:", changed, "clean:", clean, "applies:", applies)
if changed == 0 or clean != 0 or not applies:
    sys.exit(1)

"""Translator: /repo sources -> lean/DelbModel/Generated/*.lean

Re-run by every check.  Constants are read by importing the modules under test;
the tokenizer's alternation is probed through the compiled pattern object that the
code itself uses (`grab_token`), so what lands in Lean is what the code does now.
Files are only rewritten when their content changes (keeps `lake build` a no-op).
"""

from __future__ import annotations

import hashlib
import inspect
import json
import sys
from pathlib import Path

sys.dont_write_bytecode = True
sys.path.insert(0, str(Path(__file__).resolve().parent))
from common import LEAN, REPO, use_repo  # noqa: E402

use_repo()

OUT = LEAN / "DelbModel" / "Generated"
CACHE = LEAN / ".lake" / "gen_cache.json"


def lean_str(s: str) -> str:
    out = ['"']
    for ch in s:
        o = ord(ch)
        if ch == '"':
            out.append('\\"')
        elif ch == "\\":
            out.append("\\\\")
        elif ch == "\n":
            out.append("\\n")
        elif ch == "\t":
            out.append("\\t")
        elif ch == "\r":
            out.append("\\r")
        elif o < 32 or o == 127 or o > 126:
            out.append("\\u{%x}" % o)
        else:
            out.append(ch)
    out.append('"')
    return "".join(out)


def lean_char(c: str) -> str:
    return "Char.ofNat %d" % ord(c)


def ranges(cps) -> list[tuple[int, int]]:
    res = []
    for cp in sorted(cps):
        if res and res[-1][1] + 1 == cp:
            res[-1] = (res[-1][0], cp)
        else:
            res.append((cp, cp))
    return res


def lean_ranges(rs) -> str:
    return "[" + ", ".join(f"({a}, {b})" for a, b in rs) + "]"


def write_if_changed(path: Path, content: str):
    if path.exists() and path.read_text() == content:
        return False
    path.parent.mkdir(parents=True, exist_ok=True)
    path.write_text(content)
    return True


def valid_cp(cp):
    return not (0xD800 <= cp <= 0xDFFF)


def probe_tokenizer():
    """Probe the compiled alternation used by `tokenize` for its character classes."""
    from _delb.xpath import tokenizer as T

    pattern = T.grab_token.__self__
    key = hashlib.sha1(pattern.pattern.encode() + str(pattern.flags).encode()).hexdigest()
    if CACHE.exists():
        try:
            c = json.loads(CACHE.read_text())
            if c.get("key") == key:
                return c["data"]
        except Exception:
            pass
    groups = [g for g, _ in sorted(pattern.groupindex.items(), key=lambda kv: kv[1])]

    def kind(s):
        m = T.grab_token(s, pos=0)
        if m is None or m.start() != 0:
            return None, 0
        for g, v in m.groupdict().items():
            if v is not None:
                return g, len(m[g])
        return None, 0

    first = {}
    for cp in range(0x110000):
        if not valid_cp(cp):
            continue
        g, n = kind(chr(cp))
        first.setdefault(g, []).append(cp)
    name_start = first.get("NAME", [])
    digits = first.get("NUMBER", [])
    ws = first.get("WHITESPACE", [])
    a = chr(name_start[0])
    name_cont = [
        cp
        for cp in range(0x110000)
        if valid_cp(cp) and kind(a + chr(cp)) == ("NAME", 2)
    ]
    # fixed literals: every string of length <= 2 over the ASCII punctuation the
    # alternation mentions, with the group that takes it and how many chars it takes
    punct = [chr(c) for c in range(33, 127) if not chr(c).isalnum()]
    lits = {}
    for p in punct:
        g, n = kind(p)
        if g not in (None, "ERROR", "NAME", "NUMBER", "WHITESPACE", "STRING", "stringDelimiter") and n == 1:
            lits[p] = g
        for q in punct:
            g, n = kind(p + q)
            if g not in (None, "ERROR", "NAME", "NUMBER", "WHITESPACE", "STRING", "stringDelimiter") and n == 2:
                lits[p + q] = g
    # string delimiters and the escape character, probed semantically
    delims = [p for p in punct if kind(p + "x" + p) == ("STRING", 3)]
    esc = [p for p in punct if delims and kind(delims[0] + p + delims[0] + delims[0]) == ("STRING", 4)]
    # chars that may not follow the escape char inside a string (the `.` of `\\.`)
    d = delims[0] if delims else '"'
    e = esc[0] if esc else "\\"
    no_escape = [
        cp for cp in range(0x110000)
        if valid_cp(cp) and kind(d + e + chr(cp) + d)[0] != "STRING" and chr(cp) != d
    ]
    err_first = first.get("ERROR", []) + first.get(None, [])
    data = {
        "groups": groups,
        "name_start": ranges(name_start),
        "name_cont": ranges(name_cont),
        "digits": ranges(digits),
        "ws": ranges(ws),
        "lits": sorted(lits.items(), key=lambda kv: (-len(kv[0]), kv[0])),
        "delims": delims,
        "esc": esc,
        "no_escape": ranges(no_escape),
        "digit_values": [],
    }
    import unicodedata

    data["digit_values"] = [
        (a_, b_, unicodedata.digit(chr(a_))) for a_, b_ in ranges(digits)
    ]
    CACHE.parent.mkdir(exist_ok=True)
    CACHE.write_text(json.dumps({"key": key, "data": data}))
    return data


def probe_whitespace(crunch):
    pat = getattr(getattr(crunch, "func", None), "__self__", None)
    key = "ws:" + sys.version + ":" + (pat.pattern if pat is not None else repr(crunch)) + ":" + repr(getattr(crunch, "args", None))
    cache = CACHE.with_name("gen_cache_ws.json")
    if cache.exists():
        try:
            c = json.loads(cache.read_text())
            if c.get("key") == key:
                return c["data"]
        except Exception:
            pass
    ws_isspace = [cp for cp in range(0x110000) if valid_cp(cp) and chr(cp).isspace()]
    ws_re = [
        cp for cp in range(0x110000)
        if valid_cp(cp) and crunch("a" + chr(cp) + chr(cp) + "b") == "a b"
    ]
    ws_strip = [cp for cp in range(0x110000) if valid_cp(cp) and (chr(cp) + "a").strip() == "a"]
    data = [ws_isspace, ws_re, ws_strip]
    cache.parent.mkdir(exist_ok=True)
    cache.write_text(json.dumps({"key": key, "data": data}))
    return data


def gen_tables() -> str:
    from _delb import names, nodes
    from _delb.xpath import ast as xast
    from _delb.xpath import parser as xparser
    from _delb.xpath import tokenizer as T

    L = []
    w = L.append
    w("-- GENERATED by harness/gen_tables.py from /repo - do not edit.")
    w("namespace Delb.Gen")
    w("")
    # --- escaping ---------------------------------------------------------
    def table(tr):
        return "[" + ", ".join(
            f"({lean_char(chr(k))}, {lean_str(v)}.toList)" for k, v in sorted(tr.items())
        ) + "]"

    w("/-- `CCE_TABLE_FOR_TEXT` (str.translate table) -/")
    w(f"def textEscapes : List (Char × List Char) := {table(nodes.CCE_TABLE_FOR_TEXT)}")
    w("/-- `CCE_TABLE_FOR_ATTRIBUTES` -/")
    w(f"def attrEscapes : List (Char × List Char) := {table(nodes.CCE_TABLE_FOR_ATTRIBUTES)}")
    # --- whitespace -------------------------------------------------------
    import re

    crunch = nodes._crunch_whitespace
    ws_isspace, ws_re, ws_strip = probe_whitespace(crunch)
    w("/-- code points with `str.isspace()` -/")
    w(f"def pyWhitespace : List (Nat × Nat) := {lean_ranges(ranges(ws_isspace))}")
    w("/-- code points collapsed by `_crunch_whitespace` (regex `\\s`) -/")
    w(f"def reWhitespace : List (Nat × Nat) := {lean_ranges(ranges(ws_re))}")
    w("/-- code points removed by `str.strip()` -/")
    w(f"def stripWhitespace : List (Nat × Nat) := {lean_ranges(ranges(ws_strip))}")
    # --- names ------------------------------------------------------------
    w(f"def globalPrefixes : List String := [{', '.join(lean_str(p) for p in names.GLOBAL_PREFIXES)}]")
    w(f"def xmlNamespace : String := {lean_str(names.XML_NAMESPACE)}")
    w(f"def xmlnsNamespace : String := {lean_str(names.XMLNS_NAMESPACE)}")
    w("def commonNamespaces : List (String × String) := ["
      + ", ".join(f"({lean_str(k)}, {lean_str(v)})" for k, v in names.COMMON_NAMESPACES.items()) + "]")
    # --- text node positions, format options -----------------------------
    w(f"def posDETACHED : Nat := {nodes.DETACHED}")
    w(f"def posDATA : Nat := {nodes.DATA}")
    w(f"def posTAIL : Nat := {nodes.TAIL}")
    w(f"def posAPPENDED : Nat := {nodes.APPENDED}")
    fo = nodes.FormatOptions()
    w(f"def fmtDefaultAlign : Bool := {'true' if fo.align_attributes else 'false'}")
    w(f"def fmtDefaultIndentation : String := {lean_str(fo.indentation)}")
    w(f"def fmtDefaultWidth : Nat := {fo.width}")
    # --- tokenizer --------------------------------------------------------
    tk = probe_tokenizer()
    w("/-- named groups of `grab_token` in alternation order -/")
    w(f"def tokGroups : List String := [{', '.join(lean_str(g) for g in tk['groups'])}]")
    w(f"def tokNameStart : List (Nat × Nat) := {lean_ranges(tk['name_start'])}")
    w(f"def tokNameCont : List (Nat × Nat) := {lean_ranges(tk['name_cont'])}")
    w(f"def tokDigits : List (Nat × Nat) := {lean_ranges(tk['digits'])}")
    w("/-- (first, last, value of first) for every run of Unicode decimal digits -/")
    w("def tokDigitValues : List (Nat × Nat × Nat) := ["
      + ", ".join(f"({a}, {b}, {v})" for a, b, v in tk["digit_values"]) + "]")
    w(f"def tokWhitespace : List (Nat × Nat) := {lean_ranges(tk['ws'])}")
    w("/-- fixed literal tokens, longest first, with the group that takes them -/")
    w("def tokLiterals : List (List Char × String) := ["
      + ", ".join(f"({lean_str(l)}.toList, {lean_str(g)})" for l, g in tk["lits"]) + "]")
    w(f"def tokStringDelims : List Char := [{', '.join(lean_char(c) for c in tk['delims'])}]")
    w(f"def tokStringEscape : List Char := [{', '.join(lean_char(c) for c in tk['esc'])}]")
    w("/-- code points that cannot follow the escape character inside a string literal -/")
    w(f"def tokNoEscape : List (Nat × Nat) := {lean_ranges(tk['no_escape'])}")
    w("def tokTypeNames : List String := ["
      + ", ".join(lean_str(t.name) for t in T.TokenType) + "]")
    # --- parser / ast -----------------------------------------------------
    w("def nodeTypeTests : List (String × String) := ["
      + ", ".join(f"({lean_str(k)}, {lean_str(v)})" for k, v in xparser.NODE_TYPE_TEST_MAPPING.items()) + "]")
    w(f"def operatorKeys : List String := [{', '.join(lean_str(k) for k in xparser.OPERATORS)}]")
    probe = xast.Axis.__new__(xast.Axis)
    axis_names = sorted(n for n in dir(probe) if getattr(probe, n, None) is not None)
    w("/-- names `n` for which `getattr(Axis-instance, n, None)` is not None: accepted as axis specifier -/")
    w(f"def axisAttrNames : List String := [{', '.join(lean_str(n) for n in axis_names)}]")
    funcs = []
    for name, fn in sorted(xast.xpath_functions.items()):
        params = tuple(inspect.signature(fn).parameters.values())
        var = bool(params) and params[-1].kind == inspect.Parameter.VAR_POSITIONAL
        funcs.append(f"({lean_str(name)}, {len(params)}, {'true' if var else 'false'})")
    w("/-- registered XPath functions: (name, number of parameters incl. context, last is *args) -/")
    w(f"def xpathFunctions : List (String × Nat × Bool) := [{', '.join(funcs)}]")
    w("/-- `sys.get_int_max_str_digits()`: longer digit strings make `int()` raise ValueError (0 = no limit) -/")
    w(f"def intMaxStrDigits : Nat := {sys.get_int_max_str_digits()}")
    # --- garbage collection callback ---------------------------------------
    g = gc_thresholds()
    lst = lambda xs: "[" + ", ".join(str(x) for x in xs) + "]"  # noqa: E731
    w("/-- `_WrapperCache.__gc_callback__`: the integer literals of its `getrefcount` comparisons, in source order -/")
    w(f"def gcWrapperBases : List Nat := {lst(g['wrapper'])}")
    w(f"def gcDocumentIdles : List Nat := {lst(g['document'])}")
    w(f"def gcAppendedBases : List Nat := {lst(g['appended'])}")
    w(f"def gcHeadBases : List Nat := {lst(g['head'])}")
    w(f"def gcOtherComparisons : List String := [{', '.join(lean_str(x) for x in g['other'])}]")
    w(f"def gcGuard : String := {lean_str(g['guard'])}")
    # Clark notation: the function probed on a table of names (Model/Attrs.lean `deconstructClark` is compared with it)
    from _delb.names import deconstruct_clark_notation

    probes = ["a", "{urn:u}a", "{}a", "{u}{v}b", "{u}", "", "a}b", "{u}a}b", "x{u}a", "{http://www.tei-c.org/ns/1.0}text", "{ }n", "{x", "{"]
    w("/-- `deconstruct_clark_notation(name)` observed on /repo: (name, namespace or none, local name); a name that makes")
    w("    it raise is listed with local name \"<raises>\" -/")
    rows = []
    for name in probes:
        try:
            ns, local = deconstruct_clark_notation(name)
            rows.append("(%s, %s, %s)" % (lean_str(name), "none" if ns is None else "some " + lean_str(ns), lean_str(local)))
        except Exception:  # noqa: BLE001
            rows.append("(%s, none, %s)" % (lean_str(name), lean_str("<raises>")))
    w("def clarkProbes : List (String × Option String × String) := [" + ", ".join(rows) + "]")
    w("/-- generator functions that `yield` inside a `with _wrapper_cache:` block (the lock would stay raised while the")
    w("    generator is suspended, and collections would evict nothing meanwhile) -/")
    w("def gcLockHeldAcrossYield : List String := [" + ", ".join(lean_str(x) for x in g.get("lock_yields", [])) + "]")
    w(f"def gcLockBlocks : Nat := {g.get('lock_blocks', 0)}   -- number of `with _wrapper_cache:` blocks in the library")
    w("/-- `_WrapperCache.__init__/__enter__/__exit__`: what they do to `self.locks` (`none`: not of the form")
    w("    `self.locks = <int>` / `self.locks += <int>` / `self.locks -= <int>` / `self.locks = self.locks ± <int>`) -/")
    for key in ("lock_init", "lock_enter", "lock_exit"):
        v = g.get(key)
        name = {"lock_init": "gcLockInit", "lock_enter": "gcLockEnterDelta", "lock_exit": "gcLockExitDelta"}[key]
        w(f"def {name} : Option Int := " + ("none" if v is None else f"some ({v})"))
    w("def gcWrapperBase : Nat := gcWrapperBases.foldl min (gcWrapperBases.headD 0)")
    w("def gcDocumentIdle : Nat := gcDocumentIdles.foldl min (gcDocumentIdles.headD 0)")
    w("def gcAppendedBase : Nat := gcAppendedBases.foldl min (gcAppendedBases.headD 0)")
    w("def gcHeadBase : Nat := gcHeadBases.foldl min (gcHeadBases.headD 0)")
    w("")
    w("end Delb.Gen")
    return "\n".join(L) + "\n"


def gc_thresholds():
    """The comparisons of `_WrapperCache.__gc_callback__`, read from the source text (ast): every
    `getrefcount(X) > <expr>` / `getrefcount(X) == <expr>`; the first integer of <expr> (a literal, or a name that a
    module-level assignment binds to an integer literal) is the structural base. The comparisons are classified by what
    they look at, not by how the local variables are called: the wrapper is the value variable of the loop over
    `self.wrappers.items()`, its document is `<wrapper>.__document__`, a head text node is one whose own
    `_appended_text_node` appears on the right-hand side (or that is called tail_node/data_node), every other text node
    is an appended one."""
    import ast as pyast

    src = (REPO / "_delb" / "nodes.py").read_text()
    tree = pyast.parse(src)
    consts = {}
    for st in tree.body:
        tgt = val = None
        if isinstance(st, pyast.Assign) and len(st.targets) == 1 and isinstance(st.targets[0], pyast.Name):
            tgt, val = st.targets[0].id, st.value
        elif isinstance(st, pyast.AnnAssign) and isinstance(st.target, pyast.Name) and st.value is not None:
            tgt, val = st.target.id, st.value
        if tgt and isinstance(val, pyast.Constant) and isinstance(val.value, int) and not isinstance(val.value, bool):
            consts[tgt] = val.value
    fn = None
    for cls in pyast.walk(tree):
        if isinstance(cls, pyast.ClassDef) and cls.name == "_WrapperCache":
            for f in cls.body:
                if isinstance(f, pyast.FunctionDef) and f.name == "__gc_callback__":
                    fn = f
    out = {"wrapper": [], "document": [], "appended": [], "head": [], "guard": "", "other": []}
    if fn is None:
        return out

    def ints_of(e):
        """integers of an expression in source order, not descending into nested comparisons (their literals belong
        to the comparison they are in)"""
        found = []

        def visit(n, top):
            if isinstance(n, pyast.Compare) and not top:
                return
            if isinstance(n, pyast.Constant) and isinstance(n.value, int) and not isinstance(n.value, bool):
                found.append(n.value)
            elif isinstance(n, pyast.Name) and n.id in consts:
                found.append(consts[n.id])
            for c in pyast.iter_child_nodes(n):
                visit(c, False)

        visit(e, True)
        return found

    wrapper_var = "node"
    for n in pyast.walk(fn):
        if isinstance(n, pyast.For) and "wrappers.items()" in pyast.unparse(n.iter) and isinstance(n.target, pyast.Tuple) \
                and len(n.target.elts) == 2 and isinstance(n.target.elts[1], pyast.Name):
            wrapper_var = n.target.elts[1].id
            break
    for n in pyast.walk(fn):
        if isinstance(n, pyast.Compare) and isinstance(n.left, pyast.Call) and getattr(n.left.func, "id", "") == "getrefcount":
            who = pyast.unparse(n.left.args[0])
            op = type(n.ops[0]).__name__
            rhs = n.comparators[0]
            base = (ints_of(rhs) or [0])[0]
            if who == wrapper_var and op == "Gt":
                out["wrapper"].append(base)
            elif who == f"{wrapper_var}.__document__" and op == "Eq":
                out["document"].append(base)
            elif op == "Gt" and (who in ("tail_node", "data_node") or f"{who}._appended_text_node" in pyast.unparse(rhs)):
                out["head"].append(base)
            elif op == "Gt":
                out["appended"].append(base)
            else:
                out["other"].append(f"{who} {op}")
    # the lock: a counter, so that nested `with _wrapper_cache:` blocks keep the callback off until the outermost ends
    # the counter is whatever attribute of self `__enter__` changes (its name is not fixed)
    lock_attr = "self.locks"
    for cls in pyast.walk(tree):
        if isinstance(cls, pyast.ClassDef) and cls.name == "_WrapperCache":
            for f in cls.body:
                if isinstance(f, pyast.FunctionDef) and f.name == "__enter__":
                    for st in pyast.walk(f):
                        tgt = st.target if isinstance(st, pyast.AugAssign) else (st.targets[0] if isinstance(st, pyast.Assign) and len(st.targets) == 1 else None)
                        if isinstance(tgt, pyast.Attribute) and isinstance(tgt.value, pyast.Name) and tgt.value.id == "self":
                            lock_attr = pyast.unparse(tgt)

    def lock_effect(f, init=False):
        """the net effect of a method on the lock counter: an initial value (init) or a delta; None if not recognised"""
        effect = None
        for st in pyast.walk(f):
            tgt = None
            if isinstance(st, pyast.Assign) and len(st.targets) == 1:
                tgt, val = st.targets[0], st.value
            elif isinstance(st, pyast.AugAssign):
                tgt, val = st.target, st
            if tgt is None or pyast.unparse(tgt) != lock_attr:
                continue
            if effect is not None:
                return None
            if isinstance(st, pyast.AugAssign):
                if isinstance(st.value, pyast.Constant) and isinstance(st.value.value, int) and isinstance(st.op, (pyast.Add, pyast.Sub)):
                    effect = st.value.value if isinstance(st.op, pyast.Add) else -st.value.value
                else:
                    return None
            elif init and isinstance(val, pyast.Constant) and isinstance(val.value, int) and not isinstance(val.value, bool):
                effect = val.value
            elif not init and isinstance(val, pyast.BinOp) and pyast.unparse(val.left) == lock_attr \
                    and isinstance(val.right, pyast.Constant) and isinstance(val.right.value, int) and isinstance(val.op, (pyast.Add, pyast.Sub)):
                effect = val.right.value if isinstance(val.op, pyast.Add) else -val.right.value
            else:
                return None
        return effect

    for cls in pyast.walk(tree):
        if isinstance(cls, pyast.ClassDef) and cls.name == "_WrapperCache":
            for f in cls.body:
                if isinstance(f, pyast.FunctionDef) and f.name in ("__init__", "__enter__", "__exit__"):
                    out[{"__init__": "lock_init", "__enter__": "lock_enter", "__exit__": "lock_exit"}[f.name]] = lock_effect(f, f.name == "__init__")
    # `with _wrapper_cache:` blocks must not span a `yield`
    out["lock_yields"], out["lock_blocks"] = [], 0
    for rel in ("_delb/nodes.py", "delb/__init__.py", "_delb/utils.py", "delb/utils.py"):
        f = REPO / rel
        if not f.exists():
            continue
        for fdef in pyast.walk(pyast.parse(f.read_text())):
            if not isinstance(fdef, (pyast.FunctionDef, pyast.AsyncFunctionDef)):
                continue

            def scan(node, locked):
                for ch in pyast.iter_child_nodes(node):
                    if isinstance(ch, (pyast.FunctionDef, pyast.AsyncFunctionDef, pyast.Lambda)):
                        continue
                    inner = locked
                    if isinstance(ch, pyast.With) and any("_wrapper_cache" in pyast.unparse(i.context_expr) for i in ch.items):
                        inner = True
                        out["lock_blocks"] += 1
                    if isinstance(ch, (pyast.Yield, pyast.YieldFrom)) and locked:
                        out["lock_yields"].append(f"{rel}:{fdef.name}")
                    scan(ch, inner)

            scan(fdef, False)
    first = fn.body[1] if isinstance(fn.body[0], pyast.Expr) else fn.body[0]
    if isinstance(first, pyast.If) and isinstance(first.test, pyast.BoolOp) and isinstance(first.test.op, pyast.Or):
        out["guard"] = " or ".join(sorted(pyast.unparse(v) for v in first.test.values))
    else:
        out["guard"] = pyast.unparse(first.test) if isinstance(first, pyast.If) else ""
    # the guard is reported with the lock counter under its canonical name (the attribute may be called differently)
    out["guard"] = out["guard"].replace(lock_attr, "self.locks")
    return out


def main():
    changed = []
    if write_if_changed(OUT / "Tables.lean", gen_tables()):
        changed.append("Generated/Tables.lean")
    try:
        import gen_skeleton  # C08 filter skeletons

        if write_if_changed(OUT / "FilterSkeleton.lean", gen_skeleton.generate(REPO)):
            changed.append("Generated/FilterSkeleton.lean")
    except ImportError:
        pass
    import gen_cache_skeleton  # C16 memoised functions / immutability of the shared expression objects

    if write_if_changed(OUT / "CacheSkeleton.lean", gen_cache_skeleton.generate(REPO)):
        changed.append("Generated/CacheSkeleton.lean")
    import gen_guard_skeleton  # C09 order of checks and mutations in the editing entry points

    if write_if_changed(OUT / "GuardSkeleton.lean", gen_guard_skeleton.generate(REPO)):
        changed.append("Generated/GuardSkeleton.lean")
    for c in changed:
        print("regenerated", c)


if __name__ == "__main__":
    main()

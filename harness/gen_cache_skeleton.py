"""Translator for C16 (second half: "cached and freshly parsed expressions are equal and evaluate identically").

Derived by `ast` from /repo's `_delb/xpath/*.py` on every run:

  cachedFunctions   every function decorated with functools.lru_cache / functools.cache:
                    (file, qualified name, maxsize [0 = unbounded], number of parameters,
                     objectsMutated = assignments/deletions/mutating calls inside the body whose target is rooted in a
                     parameter or a global - the memoised function must be a pure function of its key)
  astMethods        every method of every class of `_delb/xpath/ast.py` (the objects that `parse` caches and shares
                    between all later calls), and every other function of that module (decorator wrappers such as
                    `ensure_prefix.<locals>.wrapper` receive the expression objects as parameters): is it a constructor (`__init__`/`__post_init__`/`__new__`), a
                    `cached_property`, and how many statements of its body
                      - store into / delete from an attribute or item of `self` (selfMutations),
                      - store into / delete from something rooted in another parameter or a non-local name, or call a
                        mutating container method (append, add, update, ...) on such an object (foreignMutations).
                    Mutating calls on objects created in the method itself (local accumulators) are not counted.

The Lean side (Props/C16.lean, `c16_cache_sites` / `c16_ast_immutable`) decides over these tables that the memoised
functions are exactly the known pure string functions and that no method outside the constructors changes a shared
expression object; `Model/Cache.lean` proves that an lru cache in front of a pure function is unobservable.
"""

from __future__ import annotations

import ast
from pathlib import Path

FILES = ["_delb/xpath/__init__.py", "_delb/xpath/ast.py", "_delb/xpath/functions.py", "_delb/xpath/parser.py",
         "_delb/xpath/tokenizer.py"]
AST_FILE = "_delb/xpath/ast.py"
# the functions through which the memoised values (token lists, expression trees) flow on every parse
PIPELINE_FILES = ["_delb/xpath/parser.py", "_delb/xpath/tokenizer.py"]

MUTATORS = {"append", "extend", "insert", "pop", "remove", "clear", "update", "add", "discard", "setdefault", "sort",
            "reverse", "popitem", "appendleft", "popleft", "extendleft", "__setitem__", "__delitem__", "__setattr__",
            "__delattr__", "cache_clear"}
CONSTRUCTORS = {"__init__", "__post_init__", "__new__", "__init_subclass__"}


def lean_str(s: str) -> str:
    return '"' + s.replace("\\", "\\\\").replace('"', '\\"') + '"'


def deco_name(d) -> str:
    if isinstance(d, ast.Call):
        d = d.func
    if isinstance(d, ast.Attribute):
        return d.attr
    if isinstance(d, ast.Name):
        return d.id
    return ""


def cache_size(d) -> int | None:
    """maxsize of an lru_cache/cache decorator; None when `d` is no cache decorator"""
    name = deco_name(d)
    if name == "cache":
        return 0
    if name != "lru_cache":
        return None
    if isinstance(d, ast.Call):
        arg = d.args[0] if d.args else next((k.value for k in d.keywords if k.arg == "maxsize"), None)
        if arg is None:
            return 128
        if isinstance(arg, ast.Constant):
            return 0 if arg.value is None else int(arg.value)
        return 0
    return 128


def root_name(expr):
    while isinstance(expr, (ast.Attribute, ast.Subscript, ast.Call, ast.Starred)):
        expr = expr.func if isinstance(expr, ast.Call) else expr.value
    return expr.id if isinstance(expr, ast.Name) else None


class Mutations(ast.NodeVisitor):
    """counts stores rooted in `self`, and in other parameters / non-local names"""

    def __init__(self, fn: ast.FunctionDef):
        a = fn.args
        self.params = [x.arg for x in a.posonlyargs + a.args + a.kwonlyargs] + (
            [a.vararg.arg] if a.vararg else []) + ([a.kwarg.arg] if a.kwarg else [])
        self.self_name = self.params[0] if self.params else None
        # names bound inside the function (assignment targets, loop variables, with/except aliases, comprehensions)
        self.locals = set()
        for n in ast.walk(fn):
            if isinstance(n, ast.Name) and isinstance(n.ctx, ast.Store):
                self.locals.add(n.id)
            elif isinstance(n, ast.ExceptHandler) and n.name:
                self.locals.add(n.name)
        self.locals -= set(self.params)
        self.self_mut = 0
        self.foreign_mut = 0
        self.fn = fn

    def _store(self, target):
        for y in ast.walk(target):
            if isinstance(y, (ast.Attribute, ast.Subscript)) and isinstance(y.ctx, (ast.Store, ast.Del)):
                self._count(root_name(y))

    def _count(self, root):
        if root is None or root in self.locals:
            return
        if root == self.self_name and self.is_method:
            self.self_mut += 1
        else:
            self.foreign_mut += 1

    def run(self, is_method: bool):
        self.is_method = is_method
        for n in ast.walk(self.fn):
            if isinstance(n, ast.Assign):
                for t in n.targets:
                    self._store(t)
            elif isinstance(n, (ast.AugAssign, ast.AnnAssign)):
                self._store(n.target)
            elif isinstance(n, ast.Delete):
                for t in n.targets:
                    self._store(t)
            elif isinstance(n, ast.Call) and isinstance(n.func, ast.Attribute) and n.func.attr in MUTATORS:
                self._count(root_name(n.func.value))
            elif isinstance(n, ast.Call) and isinstance(n.func, ast.Name) and n.func.id in ("setattr", "delattr") and n.args:
                self._count(root_name(n.args[0]))
            elif isinstance(n, (ast.Global, ast.Nonlocal)):
                self.foreign_mut += 1
        return self


def generate(repo: Path) -> str:
    cached = []
    methods = []
    pipeline = []
    for rel in FILES:
        path = repo / rel
        if not path.exists():
            continue
        tree = ast.parse(path.read_text())

        def walk(body, prefix, in_class):
            for n in body:
                if isinstance(n, ast.ClassDef):
                    walk(n.body, prefix + n.name + ".", True)
                elif isinstance(n, (ast.FunctionDef, ast.AsyncFunctionDef)):
                    q = prefix + n.name
                    decos = [deco_name(d) for d in n.decorator_list]
                    is_method = in_class and "staticmethod" not in decos
                    m = Mutations(n).run(is_method)
                    for d in n.decorator_list:
                        size = cache_size(d)
                        if size is not None:
                            cached.append((rel, q, size, len(m.params), m.self_mut + m.foreign_mut))
                    if rel in PIPELINE_FILES:
                        pipeline.append((rel.rsplit("/", 1)[1] + ":" + q, n.name in CONSTRUCTORS and in_class, "cached_property" in decos, m.self_mut, m.foreign_mut))
                    if rel == AST_FILE:  # methods, module-level functions and nested functions (decorator wrappers) alike
                        methods.append((q, n.name in CONSTRUCTORS, "cached_property" in decos, m.self_mut, m.foreign_mut))
                    walk(n.body, q + ".<locals>.", False)

        walk(tree.body, "", False)
    out = ["-- GENERATED by harness/gen_cache_skeleton.py from /repo - do not edit.", "namespace Delb.Gen", "",
           "/-- a memoised function of the XPath package: `@lru_cache` / `@cache` (see harness/gen_cache_skeleton.py) -/",
           "structure CachedFn where", "  file : String", "  name : String", "  maxsize : Nat   -- 0 = unbounded",
           "  params : Nat", "  objectsMutated : Nat", "deriving Repr, DecidableEq", "",
           "def cachedFunctions : List CachedFn := ["]
    out += ["  ⟨%s, %s, %d, %d, %d⟩," % (lean_str(f), lean_str(q), s, p, mu) for f, q, s, p, mu in cached]
    out += ["]", "",
            "/-- a method of a class of `_delb/xpath/ast.py` - the expression objects that `parse` caches and shares -/",
            "structure AstMethod where", "  name : String", "  isConstructor : Bool", "  isCachedProperty : Bool",
            "  selfMutations : Nat", "  foreignMutations : Nat", "deriving Repr, DecidableEq", "",
            "def astMethods : List AstMethod := ["]
    out += ["  ⟨%s, %s, %s, %d, %d⟩," % (lean_str(q), str(c).lower(), str(cp).lower(), sm, fm) for q, c, cp, sm, fm in methods]
    out += ["]", "",
            "/-- every function of `_delb/xpath/parser.py` and `tokenizer.py`: the memoised token lists and expressions pass",
            "    through them on every parse (seeded C14-7: a parser pass that nests the cached token list in place) -/",
            "def pipelineFunctions : List AstMethod := ["]
    out += ["  ⟨%s, %s, %s, %d, %d⟩," % (lean_str(q), str(c).lower(), str(cp).lower(), sm, fm) for q, c, cp, sm, fm in pipeline]
    out += ["]", "", "end Delb.Gen", ""]
    return "\n".join(out)


if __name__ == "__main__":
    import sys

    print(generate(Path(sys.argv[1] if len(sys.argv) > 1 else "/repo")))

"""Shared by C02 / C13 (plain serializer): case generation, implementation run, Lean request."""

from __future__ import annotations

import re

import trees

NS_POOL = ["urn:x", "urn:y", "urn:z", "http://www.tei-c.org/ns/1.0", "http://www.w3.org/2000/svg"]


def gen_decls(rng, tree_nss):
    """A `namespaces` argument: None, {}, default, prefixes, clashing with generated prefixes/the tree."""
    r = rng.random()
    pool = [n for n in tree_nss if n and n != trees.XML_NS] + NS_POOL
    if r < 0.2:
        return None
    if r < 0.3:
        return []
    if r < 0.45:
        # the caller makes a namespace of the tree the default one and gives the root's namespace (if it is another
        # one) a prefix: the default may have to be re-declared when names in no namespace occur
        root_ns = tree_nss[0] if tree_nss else ""
        others = [n for n in tree_nss if n and n != root_ns and n != trees.XML_NS]
        if others:
            d = [[rng.choice(["", None]), rng.choice(others)]]
            if root_ns:
                d.append([rng.choice(["r", "p", "ns0", "xmlr"]), root_ns])
            if rng.random() < 0.5:
                d.reverse()
            return d
    if r < 0.5:
        # the reserved namespaces as default namespace / under another prefix: refused, `xml` is never remapped (seeded C13-7)
        reserved = rng.choice([trees.XML_NS, "http://www.w3.org/2000/xmlns/"])
        d = [[rng.choice(["", None, "", None, "x"]), reserved]]
        if rng.random() < 0.5 and pool:
            d.append(["p", rng.choice(pool)])
        return d
    d = {}
    used = set()
    for _ in range(rng.choice([1, 1, 2, 3])):
        ns = rng.choice(pool)
        if ns in used:
            continue
        # ordinary prefixes, generated-looking ones, names of the library's common namespaces, and prefixes that merely
        # start with a reserved one (legal: only `xml` and `xmlns` themselves are reserved)
        p = rng.choice(["", None, "p", "q", "t", "ns0", "ns1", "ns2", "x", "svg", "xi", "xmldsig", "xmlns2", "xml_", "ns10", "n", "rdf"])
        if p in d or (p is None and "" in d) or (p == "" and None in d):
            continue
        d[p] = ns
        used.add(ns)
    return [[k, v] for k, v in d.items()]


def bfs_tags(tree):
    out = [tree]
    queue = [k for k in tree[4]]
    while queue:
        n = queue.pop(0)
        if n[0] == "t":
            queue.extend(n[4])
            out.append(n)
    return out


def set_orders(tree):
    """Iteration order of `{node.namespace} | {a.namespace for a in attributes}` per tag node,
    reproduced with the same construction in this process."""
    orders = []
    for n in bfs_tags(tree):
        s = {n[1]} | {a[0] for a in n[3]}
        orders.append(list(s))
    return orders


def gen_tree(rng, special=True):
    words = trees.WORDS if special else ["x", "yz", "lorem"]
    text = lambda g: trees.gen_text(g, ws_prob=0.3, words=words, ws=[" ", "  ", "\n", "\t"])  # noqa: E731
    return trees.gen_tree(rng, max_depth=3, max_kids=4, nss=["", "", "urn:x", "urn:y", "urn:z"],
                          p_comment=0.1, p_pi=0.08, text=text, inherit_ns=0.6)


def tree_namespaces(t, acc=None):
    acc = [] if acc is None else acc
    if t[0] == "t":
        for n in [t[1]] + [a[0] for a in t[3]]:
            if n not in acc:
                acc.append(n)
        for k in t[4]:
            tree_namespaces(k, acc)
    return acc


def attr_namespaces(t, acc=None):
    acc = set() if acc is None else acc
    if t[0] == "t":
        acc.update(a[0] for a in t[3])
        for k in t[4]:
            attr_namespaces(k, acc)
    return acc


def make_root(case):
    from delb import Document

    if case["how"] == "parsed":
        return Document(case["xml"]).root
    return trees.build_api(case["tree"])


def gen_case(rng):
    t = gen_tree(rng)
    how = rng.choice(["parsed", "parsed", "api"])
    case = {"how": how}
    if how == "parsed":
        dn = rng.choice([None, None, t[1] or None, "urn:y"])
        if dn in attr_namespaces(t):
            # an attribute that is explicitly in the namespace that is also the default one in scope
            # cannot be read through delb (C11 known finding `attr-in-default-namespace`)
            dn = None
        case["xml"] = trees.to_xml(t, default_ns=dn)
        if "]]>" in case["xml"] and rng.random() < 0.5:
            pass
    else:
        case["tree"] = t
    case["decls"] = gen_decls(rng, tree_namespaces(t))
    return case


def decl_items(decls):
    if decls is None:
        return None
    return [[k, v] for k, v in decls.items()]


def decls_from_items(items):
    if items is None:
        return None
    return {k: v for k, v in items}


def run_impl(case):
    """Returns (before-tree, outcome) where outcome is {"out": str} or {"err": class name, "msg": …}."""
    root = make_root(case)
    keep = [root] + list(root.iterate_descendants())  # noqa: F841  keep chained text nodes referenced
    if case.get("subtree") is not None:
        # a node that has a parent is serialized on its own: it is the outermost element of that serialization
        from delb import TagNode, altered_default_filters

        with altered_default_filters():
            tags = [n for n in root.iterate_descendants() if isinstance(n, TagNode)]
        if tags:
            root = tags[case["subtree"] % len(tags)]
    before = trees.extract(root)
    decls = decls_from_items(case["decls"])
    try:
        if case.get("fmt"):
            from delb import FormatOptions

            f = case["fmt"]
            out = root.serialize(namespaces=decls, format_options=FormatOptions(
                align_attributes=f["align"], indentation=f["indent"], width=f["width"]))
        else:
            out = root.serialize(namespaces=decls)
        res = {"out": out}
    except Exception as e:  # noqa: BLE001
        res = {"err": type(e).__name__, "msg": str(e)}
    after = trees.extract(root)
    return before, after, res


def lean_request(case, before):
    decls = case["decls"]
    return {
        "cmd": "serialize",
        "tree": before,
        "decls": [] if decls is None else decls,
        "orders": set_orders(before),
    }


def python_nsmap(decls):
    from _delb.names import Namespaces

    ns = Namespaces({} if decls is None else decls_from_items(decls))
    data = getattr(ns, "_Namespaces__data", None)
    if data is None:
        return None
    return [[k, v] for k, v in data.items()]


XMLNS_RE = re.compile(r"\sxmlns(?::[^=\s]+)?=")


def first_tag_end(s):
    """index just after the first start tag (attribute values cannot contain '>' : it is escaped)"""
    return s.index(">") + 1

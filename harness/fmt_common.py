"""Shared by C03 / C18 / C19-style streams: formatted serialization cases."""

from __future__ import annotations

import trees
import ser_common as S
from props import c07

DATA_WORDS = ["x", "yz", "lorem", "ipsum", "é", "漢字", "a&b", "<tag>", '"q"', "1.5"]


def gen_data_tree(rng, depth=0, max_depth=3, ns=None):
    """data style: nothing / one text / structural nodes separated by one space"""
    ns = ns if (ns is not None and rng.random() < 0.7) else rng.choice(["", "", "urn:x", "urn:y"])
    at = []
    for _ in range(rng.choice([0, 0, 1, 2, 3, 3, 6])):
        ans = rng.choice(["", "", "urn:x", "urn:z"])
        an = rng.choice(["id", "n", "type", "k", "longer-name", "a.b", "_x", "n1"])
        if not any(a[0] == ans and a[1] == an for a in at):
            at.append([ans, an, rng.choice(["", "1", "v w", "a&b", '"q"', "<"])])
    r = rng.random()
    if depth >= max_depth or r < 0.2:
        kids = []
    elif r < 0.45:
        kids = [["x", " ".join(rng.choice(DATA_WORDS) for _ in range(rng.randint(1, 4)))]]
    else:
        kids = []
        for i in range(rng.randint(1, 4) if rng.random() < 0.93 else rng.randint(9, 14)):
            if kids:
                kids.append(["x", " "])
            q = rng.random()
            if q < 0.12:
                kids.append(["c", rng.choice(["c", " note ", "a-b"])])
            elif q < 0.2:
                kids.append(["p", rng.choice(["pi", "target"]), rng.choice(["x=1", "data"])])
            else:
                kids.append(gen_data_tree(rng, depth + 1, max_depth, ns))
    return ["t", ns, rng.choice(trees.NAMES + (trees.ODD_NAMES if rng.random() < 0.1 else [])), at, kids]


def gen_reduced_tree(rng):
    """an arbitrary mixed-content tree, whitespace-reduced by the independent oracle"""
    text = lambda g: trees.gen_text(g, ws_prob=0.55, words=trees.WORDS + ["unbreakable-long-word-xxxxxxxxxxxxxxx"],  # noqa: E731
                                    ws=[" ", "  ", "\n", "\t", "\n  "])
    t = trees.gen_tree(rng, max_depth=3, max_kids=5, nss=["", "", "urn:x"], p_text=0.5, p_comment=0.1, p_pi=0.06,
                       text=text, space_attr=0.15, inherit_ns=0.8)
    t = c07.spec_reduce(trees.merge_text(t))
    if rng.random() < 0.3:
        multiline_markup(rng, t)
    return t


def multiline_markup(rng, t):
    """comments / PIs spanning lines and preserved text ending in a newline: the column after them is small"""
    if t[0] != "t":
        return
    pres = any(a[0] == trees.XML_NS and a[1] == "space" and a[2] == "preserve" for a in t[3])
    for i, k in enumerate(t[4]):
        if k[0] == "c" and rng.random() < 0.6:
            t[4][i] = ["c", rng.choice(["a\n", "note\n ", "x\n  y", "\n"])]
        elif k[0] == "p" and rng.random() < 0.6:
            t[4][i] = ["p", k[1], rng.choice(["a\nb", "x=1\n"])]
        elif k[0] == "x" and pres and rng.random() < 0.6:
            t[4][i] = ["x", k[1] + rng.choice(["\n", "\n ", "\n  "])]
        else:
            multiline_markup(rng, k)


def subtrees(tree, path=()):
    if tree[0] == "t":
        yield path, tree
        for i, k in enumerate(tree[4]):
            yield from subtrees(k, path + (i,))


def node_at(root, path):
    from delb import altered_default_filters

    with altered_default_filters():
        n = root
        for i in path:
            n = n[i]
    return n


def serialize_impl(case):
    """Builds the tree, serializes the chosen (sub)tree with the case's format options."""
    from delb import Document, FormatOptions

    if case["how"] == "parsed":
        root = Document(trees.to_xml(case["tree"], default_ns=case.get("default_ns"))).root
    else:
        root = trees.build_api(case["tree"])
    keep = list(root.iterate_descendants())  # noqa: F841
    node = node_at(root, case.get("path", ()))
    fo = FormatOptions(align_attributes=case["align"], indentation=case["indent"], width=case["width"])
    decls = S.decls_from_items(case["decls"])
    if case.get("flip") is not None:
        # the tree is serialized once, then an xml:space directive is changed to "preserve" through the attribute object
        # (the tree stays whitespace-reduced: preserved regions are not touched by the reduction) and it is serialized again
        try:
            node.serialize(format_options=fo, namespaces=decls)
        except Exception:  # noqa: BLE001
            pass
        target = node_at(root, case["flip"])
        target.attributes[(trees.XML_NS, "space")].value = "preserve"
    before = trees.extract(node)
    try:
        res = {"out": node.serialize(format_options=fo, namespaces=decls)}
    except Exception as e:  # noqa: BLE001
        res = {"err": type(e).__name__, "msg": str(e)}
    return before, res


def lean_request(cmd, case, before):
    return {
        "cmd": cmd,
        "tree": before,
        "decls": case["decls"] or [],
        "orders": S.set_orders(before),
        "indent": case["indent"],
        "align": case["align"],
        "width": case["width"],
    }

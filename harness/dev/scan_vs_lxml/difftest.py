import json, random, subprocess, sys
from lxml import etree

DRIVER = "/root/work/p4/lean/.lake/build/bin/driver"

def lx_tree(el, default_ns):
    q = etree.QName(el)
    ns = q.namespace or ""
    dns = el.nsmap.get(None, "") or ""
    attrs = []
    for k, v in el.attrib.items():
        aq = etree.QName(k)
        attrs.append([aq.namespace if aq.namespace else dns, aq.localname, v])
    kids = []
    def push_text(s):
        if s:
            if kids and kids[-1][0] == "x":
                kids[-1][1] += s
            else:
                kids.append(["x", s])
    push_text(el.text)
    for c in el:
        if isinstance(c, etree._Comment):
            kids.append(["c", c.text or ""])
        elif isinstance(c, etree._ProcessingInstruction):
            kids.append(["p", c.target, c.text or ""])
        elif isinstance(c, etree._Entity):
            kids.append(["ENTITY", c.text])
        else:
            kids.append(lx_tree(c, dns))
        push_text(c.tail)
    return ["t", ns, q.localname, attrs, kids]

def lx_parse(text):
    parser = etree.XMLParser(resolve_entities=False, remove_blank_text=False, strip_cdata=False,
                             remove_comments=False, remove_pis=False, load_dtd=False, no_network=True)
    try:
        root = etree.fromstring(text.encode("utf-8"), parser)
    except (etree.XMLSyntaxError, ValueError) as e:
        return None, str(e)
    # anything outside the root element?
    outside = root.getprevious() is not None or root.getnext() is not None
    return (lx_tree(root, ""), outside), None

def sorted_attrs(t):
    # the builder reports attributes in written order, lxml too; compare as written
    return t

BASES = [
    '<a x="1&amp;">t&lt;<!--c--><?p q?><b/></a>',
    '<ns0:r xmlns:ns0="urn:a" xmlns:ns1="urn:b" k="a&quot;&lt;&amp;&gt;b" ns1:j="1">x]]&gt;&amp;y<!-- c - d --><?p q ? r?><ns1:e><f/>t</ns1:e></ns0:r>',
    '<r xmlns="urn:a" k="v"><e j="w">a</e>b<e/>c</r>',
    '<a><b><c/></b><!----><?p ?></a>',
    '<a k="x y" j="">  <b> t </b>\n</a>',
]
FRAGS = ['<', '>', '/', '=', '"', "'", '&', ';', '!', '?', '-', 'a', 'b', ':', 'x', 'm', 'l', ' ', '\t', '\n', '\r',
         ']', '&amp;', '&lt;', '&gt;', '&quot;', '&apos;', '&#10;', '<!--', '-->', '--', '<?', '?>', 'xmlns', ']]>',
         'xml', '/>', '</', '<a>', '</a>', ' k="v"', '<b/>', '\r\n', '<![CDATA[', 'é', '\x01', ' ', '1']

def mutate(s, rnd):
    n = rnd.choice([0, 1, 1, 1, 2, 2, 3])
    for _ in range(n):
        op = rnd.randrange(3)
        i = rnd.randrange(len(s) + 1)
        if op == 0:
            s = s[:i] + rnd.choice(FRAGS) + s[i:]
        elif op == 1 and s:
            j = min(len(s), i + rnd.choice([1, 1, 2, 3]))
            s = s[:i] + s[j:]
        else:
            j = min(len(s), i + 1)
            s = s[:i] + rnd.choice(FRAGS) + s[j:]
    return s

def unsupported(text):
    return any(f in text for f in ["'", "&#", "<![CDATA[", "<!DOCTYPE", "<?xml"]) 

import re
NCNAME = re.compile(r"^[A-Za-z_\u00c0-\u00d6\u00d8-\u00f6\u00f8-\u02ff][-.0-9A-Za-z_\u00b7\u00c0-\u00d6\u00d8-\u00f6\u00f8-\u02ff]*$")
def qname_ok(q):
    parts = q.split(":")
    return 1 <= len(parts) <= 2 and all(NCNAME.match(p) for p in parts)
def bad_names(tokens):
    for t in tokens:
        if t[0] == "s":
            if not qname_ok(t[1]) or any(not qname_ok(k) for k, _ in t[2]): return True
        elif t[0] == "e":
            if not qname_ok(t[1]): return True
        elif t[0] == "p":
            if not NCNAME.match(t[1]): return True
    return False
def ws_eq(t):
    return re.search(r"\s=|=\s", t) is not None

def main(seed, n):
    rnd = random.Random(seed)
    texts = []
    for _ in range(n):
        texts.append(mutate(rnd.choice(BASES), rnd))
    inp = "\n".join(json.dumps({"cmd": "scan", "text": t}) for t in texts) + "\n"
    out = subprocess.run([DRIVER], input=inp.encode("utf-8"), capture_output=True).stdout.decode("utf-8").rstrip("\n").split("\n")
    assert len(out) == len(texts), (len(out), len(texts))
    stats = {"both_ok": 0, "both_rej": 0, "scan_only": 0, "lxml_only": 0, "lxml_only_unsupported": 0, "tree_diff": 0, "tokens_not_tree": 0}
    shown = 0
    for t, o in zip(texts, out):
        r = json.loads(o)
        lx, err = lx_parse(t)
        mine = r.get("built") if "tokens" in r else None
        scanned = "tokens" in r
        if mine is not None and lx is not None:
            if mine == lx[0] and not lx[1]:
                stats["both_ok"] += 1
            else:
                stats["tree_diff"] += 1
                if shown < 15:
                    shown += 1; print("TREE DIFF", repr(t), "\n  mine", mine, "\n  lxml", lx)
        elif mine is None and lx is None:
            stats["both_rej"] += 1
        elif mine is not None and (bad_names(r["tokens"]) or "not a valid URI" in err or "xmlns" in err and "Empty" in err or "reserved" in err):
            stats["scan_only_names_or_ns"] = stats.get("scan_only_names_or_ns", 0) + 1
        elif mine is not None:
            stats["scan_only"] += 1
            if shown < 15:
                shown += 1; print("SCAN ONLY", repr(t), "\n  mine", mine, "\n  lxml err", err)
        else:
            # lxml accepts, scan+build does not
            if lx[1]:
                stats["lxml_only_unsupported"] += 1   # content outside the root element: the builder's business
            elif unsupported(t) or ws_eq(t):
                stats["lxml_only_unsupported"] += 1
            elif scanned:
                stats["tokens_not_tree"] += 1
                if shown < 15:
                    shown += 1; print("TOKENS BUT NO TREE", repr(t), "\n  tokens", r["tokens"], "\n  lxml", lx)
            else:
                stats["lxml_only"] += 1
                if shown < 15:
                    shown += 1; print("LXML ONLY", repr(t), "\n  lxml", lx)
    print(stats)

if __name__ == "__main__":
    main(int(sys.argv[1]), int(sys.argv[2]))

"""Adversarial differential test for the `wrapser` model: unreduced trees, adjacent text nodes, nested
xml:space, odd indentation strings, newlines inside comments/PIs, subtrees.

usage: /venv/bin/python /verif/harness/dev/stress.py [--seed N] [--n 3000] [--show 3] [--mode mixed|inline|preserve|adjacent]
"""
import argparse, json, random, sys, warnings
sys.path.insert(0, "/verif/harness")
warnings.simplefilter("ignore")
import common
common.use_repo()
import fmt_common as F, ser_common as S, trees

ap = argparse.ArgumentParser()
ap.add_argument("--seed", type=int, default=0)
ap.add_argument("--n", type=int, default=3000)
ap.add_argument("--show", type=int, default=3)
ap.add_argument("--mode", default="mixed")
ap.add_argument("--case")
a = ap.parse_args()
rng = random.Random(a.seed)
WIDTHS = [1, 2, 3, 4, 5, 6, 7, 8, 9, 10, 11, 12, 13, 15, 17, 20, 25, 30, 40, 60, 79]
INDENTS = ["", " ", "  ", "\t", "    ", "\n", " \n", "\n ", " ", "  "]
WORDS = ["a", "bb", "ccc", "lorem", "ipsum-dolor", "x" * 12, "&", "<", ">", "a&b", "é", "漢字", '"', "]]>", "1"]
WS = [" ", " ", " ", "  ", "\n", "\t", " \n ", "\n\n", " ", " "]


def text(g):
    parts = []
    if g.random() < 0.45:
        parts.append(g.choice(WS))
    n = g.choice([0, 1, 1, 2, 3, 5, 8])
    for i in range(n):
        parts.append(g.choice(WORDS))
        if i + 1 < n:
            parts.append(g.choice(WS) if g.random() < 0.9 else "")
    if g.random() < 0.45:
        parts.append(g.choice(WS))
    s = "".join(parts)
    return s or g.choice(WS)


def tree(g, depth=0, ns=None, mode="mixed"):
    ns = ns if (ns is not None and g.random() < 0.8) else g.choice(["", "", "", "urn:x", "urn:y"])
    at = []
    for _ in range(g.choice([0, 0, 0, 1, 1, 2, 3])):
        ans = g.choice(["", "", "", "urn:x", "urn:z"])
        an = g.choice(["id", "n", "type", "longer-name"])
        if not any(x[0] == ans and x[1] == an for x in at):
            at.append([ans, an, g.choice(["", "1", "v w", "a&b", '"q"', "<", "é", "a\nb"])])
    p_space = {"mixed": 0.12, "inline": 0.03, "preserve": 0.35, "adjacent": 0.1, "fit": 0.4}[mode]
    if g.random() < p_space:
        at.append([trees.XML_NS, "space", g.choice(["preserve", "preserve", "default", "bogus"])])
    kids = []
    if depth < (3 if mode == "fit" else 4):
        for _ in range(g.randint(0, 3 if mode == "fit" else 5)):
            r = g.random()
            if r < 0.45:
                if kids and kids[-1][0] == "x" and mode != "adjacent":
                    continue
                kids.append(["x", text(g)])
            elif r < 0.53:
                kids.append(["c", g.choice(["c", " note ", "a-b", "", "two\nlines", "\n"])])
            elif r < 0.58:
                kids.append(["p", g.choice(["pi", "target"]), g.choice(["x=1", "data  d", "a\nb"])])
            else:
                kids.append(tree(g, depth + 1, ns, mode))
    return ["t", ns, g.choice(["a", "b", "p", "hi", "div", "note"]), at, kids]


def gen():
    mode = a.mode
    t = tree(rng, mode=mode)
    how = "api" if mode == "adjacent" else rng.choice(["parsed", "api", "api"])
    if how == "parsed":
        t = trees.merge_text(t)
    cands = [p for p, s in F.subtrees(t)]
    path = () if rng.random() < 0.7 else rng.choice(cands)
    indents = INDENTS if rng.random() < 0.3 else INDENTS[:5]
    return {"tree": t, "how": how, "path": list(path), "indent": rng.choice(indents), "align": rng.random() < 0.3,
            "width": rng.choice([30, 50, 79, 120, 200] if mode == "fit" else WIDTHS), "decls": None if rng.random() < 0.8 else S.gen_decls(rng, S.tree_namespaces(t))}


def has_empty_text(t):
    if t[0] == "x":
        return t[1] == ""
    return t[0] == "t" and any(has_empty_text(k) for k in t[4])


cases = [json.loads(a.case)] if a.case else [gen() for _ in range(a.n)]
rows = []
skipped = 0
for c in cases:
    try:
        before, res = F.serialize_impl(c)
    except Exception as e:  # noqa: BLE001
        skipped += 1
        continue
    if has_empty_text(before) or before[0] != "t":
        if before[0] != "t":
            print("NOTE path does not lead to a tag node in the real tree:", json.dumps(c, ensure_ascii=False)[:1200])
        skipped += 1
        continue
    rows.append((c, before, res))
reqs = [F.lean_request("wrapser", c, b) for c, b, _ in rows]
outs = common.run_driver(reqs)
bad = errs = 0
for (c, before, res), m in zip(rows, outs):
    mo = m.get("result", m)
    if "err" in res:
        errs += 1
    same = ("out" in res and mo.get("out") == res["out"]) or ("err" in res and "out" not in mo)
    if a.case:
        print("IMPL :", json.dumps(res, ensure_ascii=False)); print("MODEL:", json.dumps(mo, ensure_ascii=False)[:3000])
    if not same:
        bad += 1
        if bad <= a.show:
            print("MISMATCH case=" + json.dumps(c, ensure_ascii=False))
            print("  impl :", json.dumps(res, ensure_ascii=False)[:1500])
            print("  model:", json.dumps(mo, ensure_ascii=False)[:1500])
print(f"cases={len(rows)} skipped={skipped} impl_errors={errs} mismatches={bad}")
sys.exit(1 if bad else 0)

"""line coverage of the serializer region of /repo/_delb/nodes.py under stress.py / difftest.py generators"""
import sys, runpy, threading
hit = set()
def tracer(frame, event, arg):
    co = frame.f_code
    if not co.co_filename.endswith("_delb/nodes.py"):
        return None
    def local(frame, event, arg):
        if event == "line":
            hit.add(frame.f_lineno)
        return local
    hit.add(frame.f_lineno)
    return local
script = sys.argv[1]
sys.argv = sys.argv[1:]
sys.settrace(tracer)
try:
    runpy.run_path(script, run_name="__main__")
except SystemExit:
    pass
sys.settrace(None)
src = open("/repo/_delb/nodes.py").read().split("\n")
lo = next(i for i, l in enumerate(src, 1) if l.startswith("class _LineFittingSerializer"))
hi = next(i for i, l in enumerate(src, 1) if l.startswith("class FormatOptions"))
import ast
tree = ast.parse("\n".join(src))
stmt_lines = set()
for n in ast.walk(tree):
    if isinstance(n, ast.stmt) and lo <= n.lineno <= hi and not isinstance(n, (ast.FunctionDef, ast.ClassDef)):
        if isinstance(n, ast.Expr) and isinstance(n.value, ast.Constant):
            continue
        stmt_lines.add(n.lineno)
miss = sorted(stmt_lines - hit)
print("statements:", len(stmt_lines), "missed:", len(miss))
for l in miss:
    print(l, src[l-1])

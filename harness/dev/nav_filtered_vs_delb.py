import sys, json, random, subprocess
sys.path.insert(0, '/repo')
from delb import Document, altered_default_filters, is_tag_node, is_text_node, is_comment_node, is_processing_instruction_node, any_of, TagNode
from _delb.exceptions import InvalidCodePath

rnd = random.Random(7)
KEEP = []
def gen(depth):
    # returns xml string of children list w/o adjacent text
    out = []; last_text = False
    for _ in range(rnd.randint(0, 4)):
        k = rnd.choice(['t', 'x', 'c', 'p'] if not last_text else ['t', 'c', 'p'])
        if k == 'x': out.append(rnd.choice('abc')); last_text = True; continue
        last_text = False
        if k == 'c': out.append('<!--%s-->' % rnd.choice('xyz'))
        elif k == 'p': out.append('<?t %s?>' % rnd.choice('xyz'))
        else:
            out.append('<e>%s</e>' % gen(depth - 1) if depth > 0 else '<e/>')
    return ''.join(out)

KINDS = {'tag': is_tag_node, 'text': is_text_node, 'comment': is_comment_node, 'pi': is_processing_instruction_node}

def to_ptree(node, ids, counter):
    i = counter[0]; counter[0] += 1; ids[id(node)] = i; KEEP.append(node)
    if isinstance(node, TagNode):
        with altered_default_filters():
            kids = list(node.iterate_children())
        return ['t', i, '', node.local_name, [], [to_ptree(k, ids, counter)[0] for k in kids]], 
    n = type(node).__name__
    if n == 'TextNode': return ['x', i, node.content],
    if n == 'CommentNode': return ['c', i, node.content],
    return ['p', i, node.target, node.content],

def all_nodes(node, path, acc):
    acc.append((path, node))
    if isinstance(node, TagNode):
        with altered_default_filters():
            kids = list(node.iterate_children())
        for i, k in enumerate(kids): all_nodes(k, path + [i], acc)

def ask(o):
    try:
        out = subprocess.run(['/root/work/p7/lean/.lake/build/bin/driver'], input=json.dumps(o) + '\n', capture_output=True, text=True, timeout=20).stdout
    except subprocess.TimeoutExpired:
        print('TIMEOUT', json.dumps(o)); raise
    return json.loads(out)

bad = 0; cases = 0
for it in range(150):
    xml = '<r>%s</r>' % gen(3)
    doc = Document(xml)
    root = doc.root
    ids = {}
    (pt,) = to_ptree(root, ids, [0])
    nodes = []; all_nodes(root, [], nodes)
    for kinds in (['tag','text'], ['text'], ['tag'], ['tag','text','comment','pi'], ['comment','pi'], ['tag', 'comment'], []):
        res = ask({'cmd': 'nav_filtered', 'tree': pt, 'kinds': kinds})
        if 'nodes' not in res: print(res, json.dumps(pt)); break
        rows = {tuple(r['path']): r for r in res['nodes']}
        flt = any_of(*[KINDS[k] for k in kinds]) if kinds else (lambda n: False)
        I = lambda l: [ids[id(x)] for x in l]
        O = lambda x: None if x is None else ids[id(x)]
        for path, n in nodes:
            r = rows[tuple(path)]
            with altered_default_filters(flt):
                py = {}
                py['children'] = I(list(n.iterate_children()))
                py['descendants'] = I(list(n.iterate_descendants()))
                py['following_siblings'] = I(list(n.iterate_following_siblings()))
                py['preceding_siblings'] = I(list(n.iterate_preceding_siblings()))
                py['following_sibling'] = O(n.fetch_following_sibling())
                py['preceding_sibling'] = O(n.fetch_preceding_sibling())
                py['following'] = I(list(n.iterate_following()))
                py['preceding'] = I(list(n.iterate_preceding()))
                py['first_child'] = O(n.first_child); py['last_child'] = O(n.last_child)
                py['last_descendant'] = O(n.last_descendant)
                if isinstance(n, TagNode):
                    py['len'] = len(n)
                    items = []
                    for i in range(len(n) + 1):
                        try: items.append(O(n[i]))
                        except IndexError: items.append(None)
                    py['items'] = items
                    try: py['item_last'] = O(n[-1])
                    except IndexError: py['item_last'] = None
                try: py['index'] = n.index
                except InvalidCodePath: py['index'] = None
            # ancestors: given filter only, ambient default filters irrelevant -> use none ambient
            with altered_default_filters():
                py['ancestors'] = I(list(n.iterate_ancestors(flt)))
            for k, v in py.items():
                cases += 1
                if r[k] != v:
                    bad += 1
                    if bad < 15: print('MISMATCH', xml, kinds, path, k, 'lean', r[k], 'py', v)
print('cases', cases, 'mismatches', bad)

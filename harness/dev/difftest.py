"""Differential test: real TextWrappingSerializer (FormatOptions.width >= 1) vs the Lean driver's `wrapser` command.

usage: /venv/bin/python /verif/harness/dev/difftest.py [--seed N] [--n 2000] [--show 3] [--simple]
Builds nothing: run `cd /verif/lean && lake build driver` first.
Request sent to the driver (one JSON line), same fields as the existing `pretty` command plus "width":
  {"cmd":"wrapser","tree":<plain tree>,"decls":[...],"orders":[...],"indent":"  ","align":false,"width":20}
Expected answer: {"result":{"out":"<exact output string>"}, ...}  (or {"result":{"err":...}} like `pretty`)
"""
import argparse, json, random, sys, warnings
sys.path.insert(0, "/verif/harness")
warnings.simplefilter("ignore")
import common
common.use_repo()
import fmt_common as F, ser_common as S, trees
from props import c03, c19

ap = argparse.ArgumentParser()
ap.add_argument("--seed", type=int, default=0)
ap.add_argument("--n", type=int, default=2000)
ap.add_argument("--show", type=int, default=3)
ap.add_argument("--simple", action="store_true", help="only small trees without namespaces/attributes/xml:space")
ap.add_argument("--case", help="JSON of one case to run (prints both outputs)")
a = ap.parse_args()
rng = random.Random(a.seed)
WIDTHS = [1, 2, 3, 5, 7, 8, 10, 11, 13, 17, 20, 30, 40, 79]

def simple_tree(rng, depth=0):
    kids = []
    if depth < 3:
        for _ in range(rng.randint(0, 4)):
            r = rng.random()
            if r < 0.5:
                if kids and kids[-1][0] == "x":
                    continue
                ws = rng.choice(["", "", " "])
                kids.append(["x", ws + " ".join(rng.choice(["a", "bb", "ccc", "lorem", "ipsum-dolor", "x" * 12]) for _ in range(rng.randint(1, 6))) + rng.choice(["", "", " "])])
            elif r < 0.58:
                kids.append(["c", "note"])
            else:
                kids.append(simple_tree(rng, depth + 1))
    return ["t", "", rng.choice(["a", "b", "p", "hi"]), [], kids]

def gen():
    if a.simple:
        from props import c07
        t = c07.spec_reduce(trees.merge_text(simple_tree(rng)))
        return {"tree": t, "how": "parsed", "path": [], "indent": rng.choice(["", " ", "  "]), "align": False,
                "width": rng.choice(WIDTHS), "decls": None}
    r = rng.random()
    if r < 0.7:
        return c03.gen_case(rng, WIDTHS)
    # C19-style: an element holding only (long) text, nested
    c = c19.gen_case(rng, 0, "quick")
    text = " ".join(c["words"])
    node = ["t", "", "p", [], [["x", text]]]
    for d in range(c["depth"], 0, -1):
        node = ["t", "", f"n{d}", [], [node]]
    return {"tree": node, "how": "api", "path": [], "indent": c["indent"], "align": False, "width": c["w"], "decls": None}

cases = [json.loads(a.case)] if a.case else [gen() for _ in range(a.n)]
rows = []
for c in cases:
    before, res = F.serialize_impl(c)
    if c03.has_empty_text(before):
        continue
    rows.append((c, before, res))
reqs = [F.lean_request("wrapser", c, b) for c, b, _ in rows]
outs = common.run_driver(reqs)
bad = 0
for (c, before, res), m in zip(rows, outs):
    mo = m.get("result", m)
    same = ("out" in res and mo.get("out") == res["out"]) or ("err" in res and "out" not in mo)
    if a.case:
        print("IMPL :", json.dumps(res, ensure_ascii=False)); print("MODEL:", json.dumps(m, ensure_ascii=False)[:3000])
    if not same:
        bad += 1
        if bad <= a.show:
            print("MISMATCH case=" + json.dumps(c, ensure_ascii=False))
            print("  impl :", json.dumps(res, ensure_ascii=False)[:1500])
            print("  model:", json.dumps(mo, ensure_ascii=False)[:1500])
print(f"cases={len(rows)} mismatches={bad}")
sys.exit(1 if bad else 0)

import io, json, subprocess, random, sys
CODECS = ["utf-8","utf-16","utf-16-le","utf-16-be","latin-1","ascii"]
NLS = [None,"","\n","\r","\r\n"]
def py_encode(codec, nl, text):
    buf = io.BytesIO()
    w = io.TextIOWrapper(buf)
    w.reconfigure(encoding=codec, newline=nl)   # as _TextBufferWriter does
    try:
        w.write(text); w.flush()
    except UnicodeEncodeError:
        return None
    r = list(buf.getvalue()); w.detach(); return r
def xml_eol(s): return s.replace("\r\n","\n").replace("\r","\n")
def py_decode(codec, bs):
    try: return bytes(bs).decode(codec)
    except UnicodeDecodeError: return None
rnd = random.Random(7)
alphabet = ["a","<","\n","\r","é","ÿ","Ā","߿","ࠀ","€","퟿","","﻿","￿","\U00010000","\U0001F600","\U0010FFFF","\x00","\x7f","\x80"]
reqs=[]; exp=[]
texts = ["", "aé€\U0001F600\n", "<?xml version=\"1.0\" encoding=\"UTF-8\"?>\n<r/>", "﻿x"] + ["".join(rnd.choice(alphabet) for _ in range(rnd.randint(0,12))) for _ in range(400)]
for t in texts:
    for c in CODECS:
        for nl in NLS:
            reqs.append({"cmd":"encode","codec":c,"newline":nl,"text":t}); exp.append(("enc",py_encode(c,nl,t)))
# decode: encoder outputs, mutated byte strings, random bytes
bytestrs=[]
for t in texts[:150]:
    for c in CODECS:
        b = py_encode(c,None,t)
        if b is not None:
            bytestrs.append(b)
            if b:
                m=list(b); m[rnd.randrange(len(m))]=rnd.randrange(256); bytestrs.append(m)
                bytestrs.append(b[:-1])
for _ in range(600):
    bytestrs.append([rnd.choice([0,0x41,0x7f,0x80,0xbf,0xc0,0xc1,0xc2,0xdf,0xe0,0xed,0xef,0xf0,0xf4,0xf5,0xff,0xfe,0xd8,0xdc,0x9f,0xa0,0x8f,0x90]) for _ in range(rnd.randint(0,6))])
for b in bytestrs:
    for c in CODECS:
        reqs.append({"cmd":"decode","codec":c,"bytes":b}); exp.append(("dec",py_decode(c,b)))
inp="\n".join(json.dumps(r) for r in reqs)+"\n"
out=subprocess.run([".lake/build/bin/driver"],input=inp.encode(),capture_output=True).stdout.decode().split("\n")[:-1]
assert len(out)==len(reqs),(len(out),len(reqs))
bad=0
for r,(k,e),o in zip(reqs,exp,out):
    o=json.loads(o)
    if k=="enc":
        ok = (o=={"error":"unencodable"}) if e is None else (o.get("bytes")==e)
    else:
        ok = (o=={"error":"undecodable"}) if e is None else (o.get("text")==e and o.get("eol")==xml_eol(e))
    if not ok:
        bad+=1
        if bad<15: print("MISMATCH",r,"python:",e,"lean:",o)
print(len(reqs),"requests,",bad,"mismatches; enc",sum(1 for k,_ in exp if k=="enc"),"dec",sum(1 for k,_ in exp if k=="dec"), "python-rejected decodes", sum(1 for k,e in exp if k=="dec" and e is None))

"""
Index-based calls on the UNCHANGED tree versus collections inside library calls.

Run as: PYTHONPATH=<tree> /venv/bin/python unchanged_tree_gc_cases.py

Tree under test: <r><a/>t1 t2<b/></r>, where "t1" and "t2" are two separate text
nodes (the tail node of <a/> and one appended node). The program references the
root only, so the collector MAY coalesce t1/t2 at any time (that is permitted).

For every case three kinds of runs are compared:

  atomic/uncoalesced : collector disabled during the call
  atomic/coalesced   : gc.collect() right before the call, disabled during it
                       (both atomic outcomes are legitimate observations)
  inside             : a collection is placed INSIDE the library call
      * "automatic": gc.set_threshold(n) for n in 1..399, all distinct outcomes
      * "hooked":    the index argument is an int subclass whose arithmetic/
                     comparison hooks call gc.collect(); this pins the collection
                     to a point between two position lookups of the same call

Results are compared by (returned value or exception class, serialization of the
tree), i.e. modulo the permitted coalescing of unreferenced text nodes and modulo
exception messages. A result that equals neither atomic outcome is a defect of
the unchanged tree.
"""

import gc

import delb
from delb import Document, tag


def build():
    root = Document("<r><a/><b/></r>").root
    a = root[0]
    a.add_following_siblings("t1", "t2")
    del a
    return root


def children(root):
    return [str(c) for c in root.iterate_children()]


class Idx(int):
    """An int that runs a collection when the library computes with it."""

    armed = ()  # (hook name, fire on the n-th invocation)
    calls = 0

    def _hook(self, name):
        if Idx.armed and name == Idx.armed[0]:
            Idx.calls += 1
            if Idx.calls == Idx.armed[1]:
                gc.collect()

    def __lt__(self, other):
        self._hook("lt")
        return int(self) < other

    def __gt__(self, other):
        self._hook("gt")
        return int(self) > other

    def __ge__(self, other):  # reflected `0 <= item`
        self._hook("ge")
        return int(self) >= other

    def __radd__(self, other):  # `len(self) + item`
        self._hook("radd")
        return other + int(self)

    __hash__ = int.__hash__


def execute(operation, index, *, before=False, threshold=None, armed=()):
    gc.collect()
    gc.disable()
    root = build()
    if before:
        gc.collect()
    Idx.armed, Idx.calls = armed, 0
    if threshold is not None:
        gc.enable()
        gc.set_threshold(threshold)
    try:
        outcome = operation(root, index)
    except Exception as e:  # noqa: B902
        outcome = f"raised {e.__class__.__name__}"
        message = str(e)
    else:
        message = ""
    finally:
        gc.set_threshold(700, 10, 10)
        gc.disable()
        Idx.armed = ()
    result = (outcome, str(root))
    detail = (message, children(root))
    gc.enable()
    return result, detail


def insert_two_nodes(root, index):
    root.insert_children(index, tag("X"), tag("Y"))


def insert_one_node(root, index):
    root.insert_children(index, tag("X"))


def negative_getitem(root, index):
    return str(root[index])


def setitem(root, index):
    root[index] = tag("X")


CASES = (
    # operation, index, hooks that place the collection between two lookups
    (negative_getitem, -2, ("radd", 1)),  # between len(self) and the iteration
    (negative_getitem, -1, ("radd", 1)),
    # 1st `<`: `index < 0` in insert_children, 2nd `<`: `item < 0` in the lookup
    # self[index] that follows the insertion of the first node
    (insert_two_nodes, 3, ("lt", 2)),
    (insert_one_node, 3, ("gt", 1)),  # after len(self), before self[index - 1]
    (setitem, 2, ("ge", 1)),  # after len(self), before self[item]
    (setitem, 3, ("ge", 1)),
)

print(delb.__file__)
for operation, index, armed in CASES:
    uncoalesced, detail_u = execute(operation, index)
    coalesced, detail_c = execute(operation, index, before=True)
    legit = {uncoalesced, coalesced}
    automatic = {}
    for n in range(1, 400):
        result, detail = execute(operation, index, threshold=n)
        automatic.setdefault(result, (detail, []))[1].append(n)
    hooked, detail_h = execute(operation, Idx(index), armed=armed)

    print(f"\n{operation.__name__}(root, {index})")
    print(f"  atomic/uncoalesced: {uncoalesced} {detail_u}")
    print(f"  atomic/coalesced  : {coalesced} {detail_c}")
    for result, (detail, thresholds) in automatic.items():
        verdict = "legit" if result in legit else "DEFECT"
        print(
            f"  automatic, {len(thresholds)} thresholds in "
            f"{thresholds[0]}..{thresholds[-1]}: {verdict} {result} {detail}"
        )
    verdict = "legit" if hooked in legit else "DEFECT"
    print(f"  hooked {armed}: {verdict} {hooked} {detail_h}")

"""C08 - observing a tree has no side effects, and default filters stay the caller's."""

from __future__ import annotations

import json

import common
import trees
from common import Run

LEVEL = (
    "Lean theorems (Props/C08.lean): a small-step machine of the default-filter stack with suspended generator frames - if "
    "no function holds an own altered_default_filters frame across a yield, the caller's view of the stack is the caller's own "
    "at every client point under every interleaving of generator steps, abandoned generators included; if every ambient read "
    "of a function lies inside an own frame its result does not depend on the initial stack. The premises are decided "
    "(`decide`) for summaries regenerated on every run from /repo's source by an `ast` walk (Generated/FilterSkeleton.lean). "
    "Exploration on the implementation: trees x ambient filter settings x the listed operations (results identical across "
    "settings, stack identical before/after, tree dump and node identities unchanged) x interleavings of partially consumed "
    "iterators with the stack recorded at every client point."
)
ASSUME = [
    "the extractor resolves `altered_default_filters` syntactically (with-blocks, decorators) and flags truthiness tests on "
    "node-valued names; completeness of that syntactic view is trusted and cross-checked by the dynamic exploration",
]

DOCS = [
    "<root><a/><!--one--><!--two-->tail<b/><?p1?><?p2?>t2<!--three-->t3</root>",
    "<r><a>t<b/>u</a><!--c--><a k='1'><?p d?>x<c><d/>y</c></a>z</r>",
    "<r xmlns='urn:d'><a/><!--1--><b><c/>t<!--2--></b><?p x?></r>",
    "<r>a<!--c-->b<x><y/><!--d--><z>t</z></x><?q?>c</r>",
]


def settings():
    from delb import altered_default_filters, any_of, is_comment_node, is_tag_node, is_text_node, not_

    return {
        "default": [],
        "none": [()],
        "tag": [(is_tag_node,)],
        "text": [(is_text_node,)],
        "comment": [(is_comment_node,)],
        "custom": [(lambda n: getattr(n, "local_name", "") != "a",)],
        "nested": [(is_tag_node,), (not_(is_comment_node),)],
        "never": [(lambda n: False,)],
        # an emptied setting BELOW another one: the library's own `altered_default_filters()` frames are the same empty
        # tuple object as the caller's (seeded C08-7: the exit removing a frame by identity)
        "none-then-comment": [(), (is_comment_node,)],
        "none-then-tag": [(), (is_tag_node,)],
        "none-none-text": [(), (), (is_text_node,)],
    }


class ambient:
    def __init__(self, frames):
        self.frames = frames
        self.cms = []

    def __enter__(self):
        from delb import altered_default_filters

        for f in self.frames:
            cm = altered_default_filters(*f)
            cm.__enter__()
            self.cms.append(cm)

    def __exit__(self, *a):
        for cm in reversed(self.cms):
            cm.__exit__(None, None, None)
        self.cms = []


def stack():
    from _delb import nodes

    return tuple(nodes.default_filters)


def observations(doc, handle):
    """the results the property lists as independent of the ambient filters"""
    from delb import Document, FormatOptions, TagNode, TextNode, compare_trees

    root = doc.root
    nodes = handle["nodes"]
    out = {}
    out["serialize"] = root.serialize()
    out["serialize_pretty"] = root.serialize(format_options=FormatOptions(indentation="  ", width=0))
    out["serialize_wrapped"] = root.serialize(format_options=FormatOptions(indentation=" ", width=12))
    out["str_document"] = str(doc)
    out["xpath"] = [handle["id"].get(id(n)) for n in root.xpath("//*[1] | //text() | //comment()")]
    out["css"] = [handle["id"].get(id(n)) for n in root.css_select("a, c > d")]
    tags = [n for n in nodes if isinstance(n, TagNode)]
    out["location_paths"] = [n.location_path for n in tags]
    out["depths"] = [n.depth for n in nodes]
    out["ancestors"] = [[handle["id"].get(id(a)) for a in n.iterate_ancestors()] for n in nodes]
    out["document"] = [n.document is doc for n in nodes]
    out["contains"] = [n in doc for n in nodes]
    c = root.clone(deep=True)
    out["clone"] = trees.extract(c)
    out["text_clone"] = [trees.extract(n.clone()) for n in nodes if isinstance(n, TextNode)][:3]
    return out


def mutating_observations(xml):
    """detach / merge / reduce on a fresh document: the resulting trees must not depend on the ambient filters"""
    from delb import Document, TagNode, altered_default_filters

    out = {}
    d = Document(xml)
    with altered_default_filters():
        nodes = [d.root] + list(d.root.iterate_descendants())
    tags = [n for n in nodes if isinstance(n, TagNode) and n is not d.root]
    if tags:
        t = tags[len(tags) // 2]
        det = t.detach(retain_child_nodes=False)
        out["detach"] = [trees.extract(d.root), trees.extract(det)]
    # every node of every kind detached from a fresh document
    with altered_default_filters():
        count = len(nodes)
    for i in range(1, min(count, 14)):
        dd = Document(xml)
        with altered_default_filters():
            nn = [dd.root] + list(dd.root.iterate_descendants())
        try:
            det = nn[i].detach()
            out[f"detach node {i}"] = [trees.extract(dd.root), trees.extract(det)]
        except Exception as e:  # noqa: BLE001
            out[f"detach node {i}"] = f"{type(e).__name__}"
    d2 = Document(xml)
    with altered_default_filters():
        n2 = [d2.root] + list(d2.root.iterate_descendants())
        tags2 = [n for n in n2 if isinstance(n, TagNode) and n is not d2.root and len(list(n.iterate_children())) > 0]
    if tags2:
        tags2[0].detach(retain_child_nodes=True)
        out["detach_retain"] = trees.extract(d2.root)
    d3 = Document(xml)
    with altered_default_filters():  # set-up (an edit: positions are relative to visible nodes)
        d3.root.append_children("x", "y")
        keep = list(d3.root.iterate_children())  # noqa: F841
    d3.root.merge_text_nodes()
    out["merge"] = trees.extract(d3.root)
    spaced = xml.replace(">t<", ">  t  <").replace("-->", "-->  ").replace("<!--", "  <!--").replace("?>", "?> ")
    d4 = Document(spaced)
    d4.reduce_whitespace()
    out["reduce"] = trees.extract(d4.root)
    # the same reduction done while loading (parser option, TagNode.parse): whitespace reduction is filter independent
    # whichever entry point runs it (seeded C08-8: the loader calling the undecorated worker)
    from delb import ParserOptions

    out["reduce while loading"] = trees.extract(Document(spaced, parser_options=ParserOptions(reduce_whitespace=True)).root)
    out["reduce in TagNode.parse"] = trees.extract(TagNode.parse(spaced, ParserOptions(reduce_whitespace=True)))
    if out["reduce while loading"] != out["reduce"]:
        out["reduce while loading differs from reducing afterwards"] = True
    return out


def build(xml):
    from delb import Document, altered_default_filters

    doc = Document(xml)
    with altered_default_filters():
        nodes = [doc.root] + list(doc.root.iterate_descendants())
    return doc, {"nodes": nodes, "id": {id(n): i for i, n in enumerate(nodes)}}


def check_independence(run: Run, stream, xml):
    ref = None
    ref_mut = None
    for name, frames in settings().items():
        case = {"xml": xml, "setting": name, "what": "independence"}
        run.case(stream, case, name not in ("default",))
        doc, handle = build(xml)
        before_tree = trees.extract(doc.root)
        before_stack = stack()
        try:
            with ambient(frames):
                inner = stack()
                obs = observations(doc, handle)
                if stack() != inner:
                    run.violation(stream, case, {"why": "default filter stack changed by an observation", "before": len(inner), "after": len(stack())})
                mut = mutating_observations(xml)
                # calls that end with an exception must leave the caller's filters alone as well
                for label, call in raising_calls(doc):
                    try:
                        call()
                        run.count("raising call", label + ": no exception")
                    except Exception as e:  # noqa: BLE001
                        run.count("raising call", label + ": " + type(e).__name__)
                    if stack() != inner:
                        run.violation(stream, case, {"why": f"default filter stack changed by a call that raised ({label})",
                                                     "before": len(inner), "after": len(stack())})
                        break
        except Exception as e:  # noqa: BLE001
            run.violation(stream, case, {"why": f"observation raised {type(e).__name__}: {e}"})
            continue
        if stack() != before_stack:
            run.violation(stream, case, {"why": "default filter stack differs after the calls"})
        if trees.extract(doc.root) != before_tree:
            run.violation(stream, case, {"why": "observing changed the tree"})
        if any(handle["id"].get(id(n)) != i for i, n in enumerate(build_nodes(doc))):
            run.violation(stream, case, {"why": "observing changed the identity of nodes"})
        if ref is None:
            ref, ref_mut = obs, mut
            continue
        for k in obs:
            if obs[k] != ref[k]:
                run.violation(stream, case, {"why": f"result of `{k}` depends on the ambient filters", "under default": ref[k], "under " + name: obs[k]})
        for k in mut:
            if mut[k] != ref_mut.get(k):
                run.violation(stream, case, {"why": f"result of `{k}` depends on the ambient filters", "under default": ref_mut.get(k), "under " + name: mut[k]})


def raising_calls(doc):
    """library calls on `doc` that are expected to fail (the document is left as it is)"""
    from delb import FormatOptions, tag

    root = doc.root
    return [
        ("xpath unknown prefix", lambda: list(root.xpath("//undeclared:a"))),
        ("xpath syntax", lambda: root.xpath("a[")),
        ("xpath unsupported", lambda: list(root.xpath("//a/@k"))),
        ("xpath type error", lambda: list(root.xpath("//*[@k > 1]"))),
        ("css unsupported", lambda: root.css_select("a + b")),
        ("css pseudo class", lambda: root.css_select("a:first-child")),
        ("document xpath", lambda: list(doc.xpath("//undeclared:a"))),
        ("fetch_or_create ambiguous expression", lambda: root.fetch_or_create_by_xpath("a|b")),
        ("fetch_or_create unknown prefix", lambda: root.fetch_or_create_by_xpath("undeclared:q/r")),
        ("detach document root", lambda: root.detach()),
        ("append attached node", lambda: root.append_children(root.first_child) if root.first_child is not None else None),
        ("insert beyond", lambda: root.insert_children(99, "x")),
        ("index beyond", lambda: root[99]),
        ("serialize with reserved prefix", lambda: root.serialize(namespaces={"xml": "urn:x"})),
        ("serialize with bad indentation", lambda: root.serialize(format_options=FormatOptions(align_attributes=False, indentation="x", width=0))),
        ("replace root", lambda: root.replace_with(tag("n"))),
    ]


def build_nodes(doc):
    from delb import altered_default_filters

    with altered_default_filters():
        return [doc.root] + list(doc.root.iterate_descendants())


ITERATORS = ["iterate_children", "iterate_descendants", "iterate_following", "iterate_preceding", "iterate_ancestors",
             "iterate_following_siblings", "iterate_preceding_siblings", "prologue", "epilogue", "traverse_bf", "traverse_df",
             "xpath"]


def make_iterator(kind, doc, node):
    from delb import get_traverser

    if kind == "prologue":
        return iter(doc.prologue)
    if kind == "epilogue":
        return iter(doc.epilogue)
    if kind == "traverse_bf":
        return iter(get_traverser(from_left=True, depth_first=False, from_top=True)(node))
    if kind == "traverse_df":
        return iter(get_traverser(from_left=True, depth_first=True, from_top=True)(node))
    if kind == "xpath":
        return iter(node.xpath(".//*"))
    return getattr(node, kind)()


def check_interleavings(run: Run, stream, xml):
    """partially consumed / abandoned / closed iterators must leave the caller's filters alone"""
    import gc

    rng = run.rng
    pro = "<!--p1--><?pp?>"
    epi = "<!--e1--><!--e2-->"
    for name, frames in settings().items():
        doc, handle = build(pro + xml + epi)
        nodes = handle["nodes"]
        schedule = []
        case = {"xml": xml, "setting": name, "what": "interleaving", "schedule": schedule}
        with ambient(frames):
            mine = stack()
            live = []
            for _ in range(10):
                act = rng.choice(["new", "new", "next", "next", "next", "drop", "close", "call"])
                if act == "new":
                    kind = rng.choice(ITERATORS)
                    node = rng.choice(nodes)
                    schedule.append(["new", kind, handle["id"][id(node)]])
                    try:
                        live.append(make_iterator(kind, doc, node))
                    except Exception as e:  # noqa: BLE001
                        schedule.append(["raised", type(e).__name__])
                elif act == "next" and live:
                    i = rng.randrange(len(live))
                    schedule.append(["next", i])
                    try:
                        next(live[i])
                    except StopIteration:
                        live.pop(i)
                    except Exception as e:  # noqa: BLE001
                        schedule.append(["raised", type(e).__name__])
                        live.pop(i)
                elif act == "drop" and live:
                    i = rng.randrange(len(live))
                    schedule.append(["drop", i])
                    live.pop(i)
                    gc.collect()
                elif act == "close" and live:
                    i = rng.randrange(len(live))
                    schedule.append(["close", i])
                    it = live.pop(i)
                    if hasattr(it, "close"):
                        it.close()
                elif act == "call":
                    schedule.append(["call", "len/serialize"])
                    len(doc.root)
                    doc.root.serialize()
                if stack() != mine:
                    run.case(stream, case, True)
                    run.violation(stream, case, {"why": "the caller's default filters changed while iterators were live",
                                                 "expected depth": len(mine), "depth": len(stack())})
                    break
            else:
                run.case(stream, case, True)
            live.clear()
            gc.collect()
            if stack() != mine:
                run.violation(stream, case, {"why": "default filters not restored after iterators were abandoned"})
        # make sure nothing is left behind for the next case
        from _delb import nodes as N

        while len(N.default_filters) > 1:
            N.default_filters.pop()


def check(run: Run, lean: dict) -> int:
    n = run.budget(6, 120)
    run.extra["rule"] = (
        "4 seed documents + generated ones (6 quick / 40 thorough) x 11 ambient settings (default, none, tag, text, comment, "
        "custom predicate, nested, hide-everything, and three with an emptied setting below another one) x {serialize plain/pretty/wrapped, str(document), xpath, css_select, "
        "location_path, depth, ancestors, document, `in`, clone, detach, detach(retain), merge_text_nodes, reduce_whitespace} "
        "compared across settings with stack/tree/identity checks; plus random schedules over 12 iterator kinds "
        "(create/next/drop/close/unrelated call) with the stack inspected after every step"
    )
    for f in common.known_findings("C08"):
        if f.get("status") == "open":
            print(f"KNOWN-FINDING: property=C08 {f['key']}: {f['description']}")
            run.known_hit.append(f["key"])
    docs = list(DOCS)
    for _ in range(40 if run.tier == "thorough" else 6):
        if True:
            t = trees.gen_tree(run.rng, max_depth=3, max_kids=4, nss=["", "", "urn:x"], p_comment=0.2, p_pi=0.1,
                               text=lambda g: trees.gen_text(g, ws_prob=0.1, words=["t", "uv"]), attrs=False)
            docs.append(trees.to_xml(t))
    for xml in docs:
        check_independence(run, "independence", xml)
    for _ in range(n):
        for xml in docs[:3]:
            check_interleavings(run, "interleaving", xml)
    return run.finish(lean, LEVEL, ASSUME, search=search)


def search(run: Run):
    probe = Run(run.prop, run.tier, run.seed)
    for xml in DOCS:
        check_independence(probe, "search", xml)
    for _ in range(60):
        for xml in DOCS:
            check_interleavings(probe, "search", xml)
        if probe.violations:
            break
    return [probe.violations[0]] if probe.violations else None


def replay(payload: dict) -> int:
    probe = Run("C08", "quick", payload.get("seed", 0))
    for xml in DOCS:
        check_independence(probe, "replay", xml)
    for _ in range(20):
        for xml in DOCS:
            check_interleavings(probe, "replay", xml)
    print(json.dumps(probe.violations[:3], ensure_ascii=False, default=str)[:2000])
    return 1 if probe.violations else 0

"""C02 - serialize then parse gives back the same document model."""

from __future__ import annotations

import json

import common
import ser_common as S
import trees
from common import Run, run_driver

LEVEL = (
    "Lean theorems (Props/C02.lean): escaping round-trips and leaves no markup character; for every tree, caller mapping "
    "and set-iteration order the token stream the Serializer model emits is rebuilt by a namespace-aware tree builder into "
    "the normalised original (same expanded names, attribute values, text, comments, PIs, order). Correspondence: real "
    "TagNode.serialize(namespaces=...) string == render of the model's tokens (exact), Namespaces normalisation == model; "
    "property oracle: the implementation's output is re-read with delb and lxml and compared with the original tree."
)
ASSUME = [
    "tokenisation of the output string into tags/attributes/character data is lxml's (checked per case by re-parsing)",
    "excluded by documented limitation: CR in text, TAB/LF/CR in attribute values",
    "unprefixed attributes are read as delb documents it: in the default namespace in scope",
]


def excluded(tree):
    """documented exclusions: CR in text, TAB/LF/CR in attribute values"""
    if tree[0] == "x":
        return "\r" in tree[1]
    if tree[0] != "t":
        return False
    if any(any(c in a[2] for c in "\t\n\r") for a in tree[3]):
        return True
    return any(excluded(k) for k in tree[4])


def has_empty_text(tree):
    if tree[0] == "x":
        return tree[1] == ""
    return tree[0] == "t" and any(has_empty_text(k) for k in tree[4])


def is_known(case, before):
    for f in common.known_findings("C02"):
        if f.get("status") != "open":
            continue
    return None


def reread(out):
    from delb import Document
    from lxml import etree

    d = trees.extract(Document(out).root)
    l = trees.extract_lxml(etree.fromstring(out.encode("utf-8")))
    return d, l


def judge(run: Run, stream, case, before, after, res, model):
    expect = trees.merge_text(before)
    nontrivial = trees.size(before) > 3
    run.case(stream, case, nontrivial)
    run.count("how", case["how"])
    run.count("decls", "none" if case["decls"] is None else len(case["decls"]))
    if trees.canon(after) != trees.canon(before):
        run.violation(stream, case, {"why": "serialize changed the tree", "before": before, "after": after})
    if "err" in res:
        if res["err"] == "ValueError" and model is not None and "nsmap_err" in model:
            run.count("outcome", "rejected-mapping")
            return
        run.count("outcome", res["err"])
        run.violation(stream, case, {"why": f"serialize raised {res['err']}: {res['msg']}", "tree": before})
        return
    run.count("outcome", "ok")
    out = res["out"]
    try:
        d, l = reread(out)
    except Exception as e:  # noqa: BLE001
        run.violation(stream, case, {"why": f"output does not parse: {type(e).__name__}: {e}", "output": out})
        return
    if trees.canon(d) != expect:
        run.violation(stream, case, {"why": "re-read tree differs", "output": out, "reread": d, "expected": expect})
    # lxml level: elements' expanded names, text, comments, PIs must agree exactly; attributes modulo
    # the documented conflation (compare local names and values)
    if strip_attr_ns(trees.canon(l)) != strip_attr_ns(expect):
        run.violation(stream, case, {"why": "lxml-level re-read differs", "output": out, "reread": l, "expected": expect})
    if model is None:
        return
    if "driver_error" in model:
        raise common.ToolFailure(str(model))
    if "nsmap_err" in model:
        run.mismatch(stream, case, res, model, "model rejects the mapping, implementation accepts it")
        return
    py_map = S.python_nsmap(case["decls"])
    if py_map is not None and sorted(map(tuple, py_map)) != sorted(map(tuple, model["nsmap"])):
        run.mismatch(stream, case, py_map, model["nsmap"], "Namespaces normalisation differs")
    mres = model["result"]
    if "out" not in mres:
        run.mismatch(stream, case, res, mres, "model raises, implementation does not")
        return
    if mres["out"] != out:
        run.mismatch(stream, case, out, mres["out"], "output string differs")
    if model.get("built") is None or trees.canon(model["built"]) != trees.canon(model["normalized"]):
        run.mismatch(stream, case, model.get("built"), model.get("normalized"), "Lean build(emit t) != normalize t")
    if trees.canon(model["normalized"]) != expect:
        run.mismatch(stream, case, model["normalized"], expect, "Lean normalize != harness merge_text")


def strip_attr_ns(t):
    if t[0] != "t":
        return t
    return ["t", t[1], t[2], sorted([a[1], a[2]] for a in t[3]), [strip_attr_ns(k) for k in t[4]]]


def run_cases(run: Run, cases, stream, lean_ok=True):
    rows = []
    for c in cases:
        try:
            before, after, res = S.run_impl(c)
        except Exception as e:  # noqa: BLE001
            run.case(stream, c, False)
            run.violation(stream, c, f"building the case raised {type(e).__name__}: {e}")
            continue
        if excluded(before):
            run.count("outcome", "excluded-by-documented-limitation")
            continue
        rows.append((c, before, after, res))
    models = run_driver([S.lean_request(c, b) for c, b, _, _ in rows]) if lean_ok and rows else [None] * len(rows)
    # string level: the Lean scanner (Model/Scan.lean, theorems in Props/C02Scan.lean) reads the REAL output string
    scans = {}
    if lean_ok and rows:
        idx = [i for i, r in enumerate(rows) if "out" in r[3]]
        for i, sc in zip(idx, run_driver([{"cmd": "scan", "text": rows[i][3]["out"]} for i in idx])):
            scans[i] = sc
    for i, ((c, before, after, res), m) in enumerate(zip(rows, models)):
        judge(run, stream, c, before, after, res, m)
        sc = scans.get(i)
        if sc is not None:
            if "driver_error" in sc:
                raise common.ToolFailure(str(sc))
            run.count("scanner", "not-well-formed" if "error" in sc else ("built" if sc.get("built") else "tokens-only"))
            expect = trees.merge_text(before)
            if "error" in sc or sc.get("built") is None:
                run.mismatch(stream, c, res["out"], sc, "the Lean scanner does not read the real output as one well-formed element")
            elif trees.canon(sc["built"]) != expect:
                run.mismatch(stream, c, sc["built"], expect, "Lean build(scan(real output)) differs from the original tree")


def corpus():
    return [
        {"how": "api", "tree": ["t", "urn:a", "r", [], [["t", "urn:b", "e", [], []]]], "decls": [["ns0", "urn:b"]]},
        {"how": "api", "tree": ["t", "urn:a", "r", [["urn:c", "k", "v"]], [["t", "urn:b", "e", [], []]]], "decls": [["ns1", "urn:b"], ["ns0", "urn:q"]]},
        {"how": "api", "tree": ["t", "", "r", [], [["x", ""]]], "decls": None},
        {"how": "api", "tree": ["t", "", "r", [], [["t", "", "a", [], []], ["x", ""], ["t", "", "b", [], []]]], "decls": None},
        {"how": "parsed", "xml": "<r><![CDATA[a<b&c]]>]]&gt;<e a='&quot;&apos;&lt;&gt;&amp;'/></r>", "decls": None},
        {"how": "parsed", "xml": "<r xmlns='d1'><b xmlns='d2' k='1'/><c xmlns=''/></r>", "decls": None},
        {"how": "parsed", "xml": "<r xmlns='d1'><b xmlns='d2' k='1'/><c xmlns=''/></r>", "decls": [[None, "d2"]]},
        {"how": "parsed", "xml": "<x:r xmlns:x='d' x:y=''/>", "decls": [["x", "d"]]},
        {"how": "parsed", "xml": "<r xml:lang='en' xml:space='preserve'> <a/> </r>", "decls": [["t", "urn:unused"]]},
    ]


def check(run: Run, lean: dict) -> int:
    n = run.budget(1500, 40000)
    run.extra["rule"] = (
        "generated trees (parsed with/without default namespace, or API-built; special characters & < > \" ' ]]>, non-ASCII, "
        "comments, PIs, nested/mixed namespaces, namespaced attributes) x namespaces argument (None, {}, default, prefixes, "
        "prefixes equal to generated ones, common-namespace prefixes); observed set-iteration orders passed to the model; "
        "non-trivial = more than 3 nodes"
    )
    ok = lean.get("driver_ok", True)
    for f in common.known_findings("C02"):
        if f.get("status") == "open":
            print(f"KNOWN-FINDING: property=C02 {f['key']}: {f['description']}")
            run.known_hit.append(f["key"])
    run_cases(run, corpus(), "corpus", ok)
    run_cases(run, [S.gen_case(run.rng) for _ in range(n)], "generated", ok)
    return run.finish(lean, LEVEL, ASSUME, search=search)


def search(run: Run):
    probe = Run(run.prop, run.tier, run.seed)
    cands = [m["case"] for m in run.mismatches] + corpus() + [S.gen_case(run.rng) for _ in range(15000)]
    for c in cands:
        try:
            before, after, res = S.run_impl(c)
        except Exception as e:  # noqa: BLE001
            return [{"case": c, "detail": f"raised {type(e).__name__}: {e}"}]
        if excluded(before):
            continue
        judge(probe, "search", c, before, after, res, None)
        if probe.violations:
            return [probe.violations[0]]
    return None


def replay(payload: dict) -> int:
    bad = 0
    for f in payload.get("failing", []):
        probe = Run("C02", "quick", 0)
        before, after, res = S.run_impl(f["case"])
        judge(probe, "replay", f["case"], before, after, res, None)
        print(json.dumps({"case": f["case"], "result": res, "violations": probe.violations}, ensure_ascii=False))
        bad += bool(probe.violations)
    return 1 if bad else 0

"""C17 - compare_trees reports equal exactly when two trees are equal."""

from __future__ import annotations

import copy
import json

import common
import trees
from common import Run, run_driver

LEVEL = (
    "Lean theorems (Props/C17.lean): the model of the compare_trees recursion returns 'equal' iff the trees visible "
    "under the filter are structurally equal (attributes as dictionaries), is symmetric in its verdict, reflexive, and a "
    "reported pair sits at the same address in both trees and really differs in the reported aspect - for all trees and "
    "all filter predicates. Correspondence: real compare_trees on (tree, point-mutated copy) pairs, both argument orders, "
    "under several ambient filter settings vs the compiled model (verdict, difference kind, address of the reported node)."
)
ASSUME = [
    "the ambient default filters are type filters expressible as a predicate on the node kind (all, tag|text, tag, text, no comments, no PIs)",
    "trees are extracted through delb's API; attribute namespaces as delb reports them",
]

FILTERS = ["all", "default", "tag", "text", "nocomment", "nopi"]


def ambient(name):
    from delb import (altered_default_filters, any_of, is_comment_node, is_processing_instruction_node,
                      is_tag_node, is_text_node, not_)

    return {
        "all": lambda: altered_default_filters(),
        "default": lambda: altered_default_filters(any_of(is_tag_node, is_text_node)),
        "tag": lambda: altered_default_filters(is_tag_node),
        "text": lambda: altered_default_filters(is_text_node),
        "nocomment": lambda: altered_default_filters(not_(is_comment_node)),
        "nopi": lambda: altered_default_filters(not_(is_processing_instruction_node)),
    }[name]()


def py_filter(name):
    return {
        "all": lambda k: True,
        "default": lambda k: k[0] in "tx",
        "tag": lambda k: k[0] == "t",
        "text": lambda k: k[0] == "x",
        "nocomment": lambda k: k[0] != "c",
        "nopi": lambda k: k[0] != "p",
    }[name]


def vis(t, f):
    if t[0] != "t":
        return t
    return ["t", t[1], t[2], trees.sort_attrs(t[3]), [vis(k, f) for k in t[4] if f(k)]]


def all_paths(t, p=()):
    yield p, t
    if t[0] == "t":
        for i, k in enumerate(t[4]):
            yield from all_paths(k, p + (i,))


def mutate(rng, tree):
    """copy with exactly one point mutation; returns (copy, kind)"""
    t = copy.deepcopy(tree)
    paths = list(all_paths(t))
    p, n = rng.choice(paths)
    parent = None
    if p:
        parent = t
        for i in p[:-1]:
            parent = parent[4][i]
    kinds = []
    if n[0] == "t":
        kinds += ["rename", "renamespace", "attr-add", "child-add"]
        if n[3]:
            kinds += ["attr-remove", "attr-change", "attr-rename", "attr-renamespace", "attr-renamespace"]
        if len(n[4]) >= 2:
            kinds += ["swap"]
        if n[4]:
            kinds += ["child-remove"]
    else:
        kinds += ["content"]
    if parent is not None:
        kinds += ["kind", "remove"]
    k = rng.choice(kinds)
    if k == "rename":
        n[2] = n[2] + "x"
    elif k == "renamespace":
        n[1] = "urn:other" if n[1] != "urn:other" else ""
    elif k == "attr-add":
        n[3].append(["", "zz", "1"])
    elif k == "attr-remove":
        n[3].pop(rng.randrange(len(n[3])))
    elif k == "attr-change":
        a = rng.choice(n[3])
        a[2] = a[2] + "!"
    elif k == "attr-rename":
        a = rng.choice(n[3])
        a[1] = a[1] + "q"
    elif k == "attr-renamespace":
        # same local name and value, another namespace: between the element's namespace and none (under a default
        # namespace the two are one attribute, under a prefix they are two - seeded C17-8), or into a foreign one
        a = rng.choice(n[3])
        if a[0] == trees.XML_NS:
            return None, k
        new_ns = rng.choice([n[1], "", "urn:other"]) if a[0] not in (n[1], "") else (n[1] if a[0] == "" else "")
        if new_ns == a[0] or any(o is not a and o[1] == a[1] and o[0] == new_ns for o in n[3]):
            return None, k
        a[0] = new_ns
    elif k == "child-add":
        new = rng.choice([["x", "new"], ["c", "new"], ["p", "new", "d"], ["t", "", "new", [], []]])
        i = rng.randint(0, len(n[4]))
        # a text node next to a text node is allowed: API-built trees keep them apart (chained text nodes), parsed
        # ones merge them - both are a difference in content
        if rng.random() < 0.5:
            i = len(n[4])
        n[4].insert(i, new)
    elif k == "child-remove":
        i = rng.randrange(len(n[4]))
        n[4].pop(i)
        if 0 < i < len(n[4]) and n[4][i - 1][0] == "x" and n[4][i][0] == "x":
            n[4][i - 1] = ["x", n[4][i - 1][1] + n[4].pop(i)[1]]
    elif k == "swap":
        i = rng.randrange(len(n[4]) - 1)
        a, b = n[4][i], n[4][i + 1]
        if a == b:
            return None, k
        n[4][i], n[4][i + 1] = b, a
    elif k == "content":
        if n[0] == "p" and rng.random() < 0.5:
            n[1] = n[1] + "t"
        else:
            n[-1] = n[-1] + "~"
    elif k == "kind":
        i = p[-1]
        sib = parent[4]
        cand = [["c", "kind"], ["p", "kind", ""], ["t", "", "kind", [], []]]
        if not ((i > 0 and sib[i - 1][0] == "x") or (i + 1 < len(sib) and sib[i + 1][0] == "x")):
            cand.append(["x", "kind"])
        cand = [c for c in cand if c[0] != n[0]]
        sib[i] = rng.choice(cand)
    elif k == "remove":
        i = p[-1]
        sib = parent[4]
        sib.pop(i)
        if 0 < i < len(sib) and sib[i - 1][0] == "x" and sib[i][0] == "x":
            sib[i - 1] = ["x", sib[i - 1][1] + sib.pop(i)[1]]
    return t, k


def node_path(node, root):
    """address of `node` relative to `root` among the children visible under the ambient filters"""
    path = []
    while node is not root:
        parent = node.parent
        if parent is None:
            return None
        idx = None
        for i, c in enumerate(parent.iterate_children()):
            if c is node:
                idx = i
        if idx is None:
            return None
        path.append(idx)
        node = parent
    return list(reversed(path))


def impl_compare(case):
    from delb import Document, compare_trees

    def make(t, how):
        if how == "parsed":
            return Document(trees.to_xml(t)).root
        return trees.build_api(t)

    from delb import altered_default_filters

    def respell(node, how):
        """the same tree with its namespaces declared in another way (what the nodes report decides about equality)"""
        if how == "default" and node.namespace:
            return Document(node.serialize(namespaces={"": node.namespace})).root
        if how == "prefixed" and node.namespace:
            return Document(node.serialize(namespaces={"pp": node.namespace})).root
        if how == "clone":
            return node.clone(deep=True)
        return node

    a = respell(make(case["a"], case["how"]), case.get("respell", [None, None])[0])
    b = respell(make(case["b"], case["how"]), case.get("respell", [None, None])[1])
    # all nodes stay referenced for the duration of the case: unreferenced adjacent text nodes may be coalesced by a
    # garbage collection (C04), which changes the number of text nodes compare_trees sees (false alarm of the first
    # thorough run, DESIGN.md section 5)
    with altered_default_filters():
        keep = list(a.iterate_descendants()) + list(b.iterate_descendants())  # noqa: F841
    ta, tb = trees.extract(a), trees.extract(b)
    out = {}
    with ambient(case["filter"]):
        for key, (x, y) in (("ab", (a, b)), ("ba", (b, a))):
            r = compare_trees(x, y)
            if r:
                out[key] = None
            else:
                out[key] = [r.difference_kind.name, node_path(r.lhn, x)]
            try:
                str(r)
            except Exception as e:  # noqa: BLE001
                out[key + "_str"] = f"{type(e).__name__}: {e}"
    return ta, tb, out


def leaf_root_cases(run: Run, stream, n):
    """compare_trees takes any two nodes: text, comment and PI nodes as the roots of the comparison (attached ones taken
    from two documents, and parentless ones)"""
    from delb import Document, altered_default_filters, compare_trees, new_comment_node, new_processing_instruction_node

    rng = run.rng
    for _ in range(n):
        kind = rng.choice(["text", "comment", "pi"])
        a = rng.choice(["lorem", "x", " ", "é"])
        b = a if rng.random() < 0.4 else rng.choice(["LOREM", "x ", "", "y"])
        ta, tb = rng.choice(["t", "u"]), rng.choice(["t", "t", "u"])
        case = {"leaf_roots": kind, "a": a, "b": b, "targets": [ta, tb], "attached": rng.random() < 0.6}
        if kind == "text" and (not a or not b):
            continue
        with altered_default_filters():
            if case["attached"]:
                mk = {"text": lambda s, t: s.replace("&", "&amp;").replace("<", "&lt;"), "comment": lambda s, t: f"<!--{s}-->",
                      "pi": lambda s, t: f"<?{t} {s}?>"}[kind]
                da, db = Document(f"<r><k/>{mk(a, ta)}<k/></r>"), Document(f"<r><k/>{mk(b, tb)}<k/></r>")
                na, nb = da.root[1], db.root[1]
            elif kind == "comment":
                na, nb = new_comment_node(a), new_comment_node(b)
            elif kind == "pi":
                na, nb = new_processing_instruction_node(ta, a), new_processing_instruction_node(tb, b)
            else:
                da, db = Document("<r/>"), Document("<r/>")
                na, nb = da.root.append_children(a)[0].detach(), db.root.append_children(b)[0].detach()
            # what the two nodes hold (a parser strips the whitespace in front of a PI's content)
            equal = na.content == nb.content and (kind != "pi" or na.target == nb.target)
            run.case(stream, case, not equal)
            run.count("leaf roots", kind)
            for x, y in ((na, nb), (nb, na)):
                r = compare_trees(x, y)
                if bool(r) != equal:
                    run.violation(stream, case, {"why": "verdict for two childless nodes as roots", "compare_trees": bool(r), "equal": equal})
                elif not equal and (r.lhn is not x or r.rhn is not y):
                    run.violation(stream, case, {"why": "the reported pair is not the differing pair"})


def gen_case(rng):
    t = trees.gen_tree(rng, max_depth=3, max_kids=4, nss=["", "", "urn:x", "urn:y"], p_comment=0.15, p_pi=0.1,
                       text=lambda g: trees.gen_text(g, ws_prob=0.2), inherit_ns=0.8, adjacent_text=rng.random() < 0.3)
    r = rng.random()
    if r < 0.2:
        b, kind = copy.deepcopy(t), "none"
    else:
        b, kind = mutate(rng, t)
        if b is None:
            b, kind = copy.deepcopy(t), "none"
    case = {"a": t, "b": b, "kind": kind, "filter": rng.choice(FILTERS), "how": rng.choice(["parsed", "api"])}
    if rng.random() < 0.3:
        # the two sides declare their namespaces differently (default namespace / prefix / as cloned)
        case["respell"] = [rng.choice([None, "default", "prefixed", "clone"]), rng.choice(["default", "prefixed", "clone"])]
    return case


def same_namespace_attributes(rng, t):
    """attributes are put into the namespace of their element (in a default-namespace spelling they are written unprefixed)"""
    if t[0] == "t":
        for a in t[3]:
            if t[1] and a[0] != trees.XML_NS and rng.random() < 0.7 and not any(o is not a and o[1] == a[1] and o[0] == t[1] for o in t[3]):
                a[0] = t[1]
        for k in t[4]:
            same_namespace_attributes(rng, k)
    return t


def gen_spelling_case(rng):
    t = trees.gen_tree(rng, max_depth=3, max_kids=3, nss=["urn:x", "urn:x", "urn:y"], p_comment=0.1, p_pi=0.05,
                       text=lambda g: trees.gen_text(g, ws_prob=0.2), inherit_ns=0.9)
    same_namespace_attributes(rng, t)
    b, kind = (copy.deepcopy(t), "none") if rng.random() < 0.2 else mutate(rng, t)
    if b is None:
        b, kind = copy.deepcopy(t), "none"
    return {"a": t, "b": b, "kind": kind, "filter": rng.choice(FILTERS), "how": rng.choice(["parsed", "api"]),
            "respell": [rng.choice([None, "default", "prefixed", "clone"]), rng.choice(["default", "prefixed", "clone"])]}


def is_known(case):
    return None


def judge(run: Run, stream, case, ta, tb, out, model):
    f = py_filter(case["filter"])
    equal = vis(ta, f) == vis(tb, f)
    run.case(stream, {k: case[k] for k in ("kind", "filter", "how")} | {"size": trees.size(case["a"])}, case["kind"] != "none")
    run.count("mutation", case["kind"])
    run.count("filter", case["filter"])
    run.count("verdict", "equal" if equal else "different")
    for key in ("ab", "ba"):
        got_equal = out[key] is None
        if got_equal != equal:
            run.violation(stream, case, {"order": key, "compare_trees": "equal" if got_equal else out[key], "visible trees equal": equal})
    if (out["ab"] is None) != (out["ba"] is None):
        run.violation(stream, case, {"why": "verdict depends on argument order", "ab": out["ab"], "ba": out["ba"]})
    if model is not None:
        if "driver_error" in model:
            raise common.ToolFailure(str(model))
        for key in ("ab", "ba"):
            if out[key] != model[key]:
                run.mismatch(stream, case, {key: out[key]}, {key: model[key]})


def run_cases(run: Run, cases, stream, lean_ok=True):
    rows = []
    for c in cases:
        try:
            ta, tb, out = impl_compare(c)
        except Exception as e:  # noqa: BLE001
            run.case(stream, c, False)
            run.violation(stream, c, f"raised {type(e).__name__}: {e}")
            continue
        rows.append((c, ta, tb, out))
    models = (
        run_driver([{"cmd": "compare", "a": ta, "b": tb, "filter": c["filter"]} for c, ta, tb, _ in rows])
        if lean_ok and rows else [None] * len(rows)
    )
    for (c, ta, tb, out), m in zip(rows, models):
        judge(run, stream, c, ta, tb, out, m)


def corpus():
    a = ["t", "", "node", [["", "a", ""]], []]
    return [
        {"a": a, "b": ["t", "", "node", [["", "b", ""]], []], "kind": "attr-rename", "filter": "default", "how": "parsed"},
        {"a": a, "b": ["t", "", "node", [["urn:p", "a", ""]], []], "kind": "attr-ns", "filter": "default", "how": "api"},
        {"a": ["t", "", "n", [], [["c", "a"]]], "b": ["t", "", "n", [], [["c", " a "]]], "kind": "content", "filter": "all", "how": "parsed"},
        {"a": ["t", "", "n", [], [["c", "a"]]], "b": ["t", "", "n", [], [["c", " a "]]], "kind": "content", "filter": "default", "how": "parsed"},
        {"a": ["t", "", "n", [], [["t", "", "a", [], []], ["t", "", "b", [], []]]],
         "b": ["t", "", "n", [], [["t", "", "a", [], []], ["t", "", "a", [], []]]], "kind": "rename", "filter": "tag", "how": "api"},
        {"a": ["t", "", "n", [], [["x", "foo"]]], "b": ["t", "", "n", [], [["x", "bar"]]], "kind": "content", "filter": "default", "how": "parsed"},
        {"a": ["t", "", "n", [], [["c", "x"], ["t", "", "a", [["", "k", "1"]], []]]],
         "b": ["t", "", "n", [], [["t", "", "a", [["", "k", "2"]], []], ["c", "y"]]], "kind": "attr-change", "filter": "nocomment", "how": "api"},
    ]


def check(run: Run, lean: dict) -> int:
    n = run.budget(1500, 40000)
    run.extra["rule"] = (
        "generated trees (namespaces, attributes, text, comments, PIs) paired with an exact copy (20%) or a copy with one point "
        "mutation (rename, re-namespace, attribute add/remove/change/rename, content change, child add/remove, sibling swap, "
        "node kind change) at a random depth; parsed or API-built; 6 ambient filter settings; both argument orders; "
        "non-trivial = mutated pair"
    )
    ok = lean.get("driver_ok", True)
    run_cases(run, corpus(), "corpus", ok)
    run_cases(run, [gen_case(run.rng) for _ in range(n)], "generated", ok)
    run_cases(run, [gen_spelling_case(run.rng) for _ in range(n // 3)], "two spellings of the namespaces", ok)
    leaf_root_cases(run, "childless roots", 150)
    return run.finish(lean, LEVEL, ASSUME, search=search)


def search(run: Run):
    probe = Run(run.prop, run.tier, run.seed)
    cands = [m["case"] for m in run.mismatches] + corpus() + [(gen_spelling_case if i % 3 == 0 else gen_case)(run.rng) for i in range(20000)]
    for c in cands:
        try:
            ta, tb, out = impl_compare(c)
        except Exception as e:  # noqa: BLE001
            return [{"case": c, "detail": f"raised {type(e).__name__}: {e}"}]
        judge(probe, "search", c, ta, tb, out, None)
        if probe.violations:
            return [probe.violations[0]]
    return None


def replay(payload: dict) -> int:
    bad = 0
    for f in payload.get("failing", []):
        probe = Run("C17", "quick", 0)
        ta, tb, out = impl_compare(f["case"])
        judge(probe, "replay", f["case"], ta, tb, out, None)
        print(json.dumps({"case": f["case"], "out": out, "violations": probe.violations}, ensure_ascii=False))
        bad += bool(probe.violations)
    return 1 if bad else 0

"""C09 - a node lives in at most one place; rejected edits change nothing."""

from __future__ import annotations

import contextlib
import copy
import gc
import json

import common
import edits as E
from common import Run, run_driver

LEVEL = (
    "Lean theorems (Props/C09.lean) about the model of the API's guards (Model/Guards.lean: _prepare_new_relative, both "
    "_validate_sibling_operation variants, detach/replace/insert/__setitem__/__delitem__ guards, comment-content and "
    "PI-target validators): a call is rejected exactly when the declarative illegality condition holds, with the exception "
    "class the code uses; the validators accept exactly well-formed comments / non-reserved targets. That a rejected call "
    "leaves both trees untouched is a statement about mutation order in the Python code which a functional model cannot "
    "exhibit: it is checked on the implementation - every illegal single-node attempt on trees reached by edit histories: "
    "exception class vs the guard model, and full dumps of all trees before/after."
)
ASSUME = [
    "illegal attempts are single-node calls (the property's scope); trees are reached by Legal histories (C01)",
    "no ambient filters during the calls",
]

PROPERTY_CLASS = {
    "attached": {"InvalidOperation"},
    "detach-doc-root": {"InvalidOperation"},
    "replace-root": {"InvalidOperation"},
    "retain-parentless": {"InvalidOperation"},
    # "refused": the property does not name the class; a tag() definition next to a parentless comment/text
    # is refused with AttributeError (from `self.parent._new_tag_node_from_definition`), tree untouched
    "root-sibling": {"InvalidOperation", "TypeError", "AttributeError"},
    "index": {"IndexError", "ValueError"},
    "content": {"ValueError"},
}


def attempts(rng, mirror: E.Mirror, world: E.World):
    """illegal single-node calls applicable to the current forest"""
    nodes = [(g, p, n) for g, t in enumerate(mirror.groups) if t is not None for p, n in E.walk(t)]
    attached = [n for g, p, n in nodes if p]
    roots = [(g, n) for g, p, n in nodes if not p]
    tags = [n for g, p, n in nodes if n[0] == "t"]
    out = []
    if attached:
        for _ in range(4):
            off = rng.choice(attached)
            tgt = rng.choice([n for g, p, n in nodes])
            k = rng.choice(["add_following", "add_preceding", "append", "insert", "replace", "setitem0", "setitem_in", "setitem_in"])
            tp = mirror.find(E.tid(tgt))[1]
            if k in ("add_following", "add_preceding", "replace") and not tp:
                continue
            if k in ("append", "insert", "setitem0", "setitem_in") and tgt[0] != "t":
                continue
            if k == "setitem_in" and not tgt[5]:
                continue
            if k == "setitem0" and tgt[5]:
                continue
            if E.tid(off) == E.tid(tgt):
                continue
            c = {"why": "attached", "op": k, "target": E.tid(tgt), "offered": E.tid(off),
                 "ambient": rng.choice(["none", "default"])}
            if k == "insert":
                c["index"] = rng.randint(0, len(tgt[5]))
            if k == "setitem_in":
                # item assignment at an existing position: the offered node is attached elsewhere or is that very child
                c["index"] = rng.randrange(len(tgt[5]))
                if rng.random() < 0.25:
                    c["offered"] = E.tid(tgt[5][c["index"]])
                c["child"] = E.tid(tgt[5][c["index"]])
            if c["ambient"] == "default" and k != "append":
                # under default filters index/sibling arguments address visible nodes only; keep to append
                c["ambient"] = "none"
            out.append(c)
    out.append({"why": "detach-doc-root", "op": "detach", "target": E.tid(mirror.groups[0]), "retain": False})
    # the document's root offered to another tree: it has neither a parent nor (without prologue/epilogue) siblings, but
    # it lives in its document (fix 313e3eb)
    others = [n for g, p, n in nodes if g != 0 and n[0] == "t"]
    if others and mirror.groups[0] is not None:
        tgt = rng.choice(others)
        k = rng.choice(["append", "insert", "add_following"] if mirror.find(E.tid(tgt))[1] else ["append", "insert"])
        c = {"why": "attached", "op": k, "target": E.tid(tgt), "offered": E.tid(mirror.groups[0]), "ambient": "none"}
        if k == "insert":
            c["index"] = rng.randint(0, len(tgt[5]))
        out.append(c)
    for g, n in roots:
        if n[0] == "t" and g != 0 and rng.random() < 0.5:
            out.append({"why": "retain-parentless", "op": "detach", "target": E.tid(n), "retain": True})
        if rng.random() < 0.5:
            out.append({"why": "replace-root", "op": "replace", "target": E.tid(n), "offered": "text"})
        if rng.random() < 0.7:
            out.append({"why": "root-sibling", "op": rng.choice(["add_following", "add_preceding"]), "target": E.tid(n),
                        "offered": rng.choice(["text", "tag"])})
    for n in rng.sample(tags, min(3, len(tags))):
        idx = rng.choice([len(n[5]) + 1, len(n[5]) + 5, -1, -3])
        out.append({"why": "index", "op": "insert", "target": E.tid(n), "offered": "text", "index": idx})
        out.append({"why": "index", "op": "setitem", "target": E.tid(n), "offered": "text",
                    "index": rng.choice([len(n[5]) + (0 if n[5] else 1), len(n[5]) + 3, -1 - len(n[5]) - 1])})
        out.append({"why": "index", "op": "delitem", "target": E.tid(n), "index": rng.choice([len(n[5]), len(n[5]) + 2, -len(n[5]) - 1])})
    comments = [n for g, p, n in nodes if n[0] == "c"]
    pis = [n for g, p, n in nodes if n[0] == "p"]
    bad_comment = rng.choice(["a--z", "foo-", "--", "-", "x---"])
    bad_target = rng.choice(["", "xml", "XML", "xMl", "Xml"])
    out.append({"why": "content", "op": "new_comment", "s": bad_comment})
    out.append({"why": "content", "op": "new_pi", "s": bad_target})
    if comments:
        out.append({"why": "content", "op": "comment_content", "target": E.tid(rng.choice(comments)), "s": bad_comment})
    if pis:
        out.append({"why": "content", "op": "pi_target", "target": E.tid(rng.choice(pis)), "s": bad_target})
    return out


def call(world: E.World, a):
    import contextlib

    from delb import altered_default_filters, new_comment_node, new_processing_instruction_node, tag

    # the calls are made without ambient filters or under the library's default ones
    ambient = contextlib.nullcontext if a.get("ambient") == "default" else altered_default_filters

    def offered():
        o = a.get("offered")
        if o == "text":
            return "txt"
        if o == "tag":
            return tag("t")
        return world.objs[o]

    try:
        with ambient():
            op = a["op"]
            if op == "new_comment":
                new_comment_node(a["s"])
                return None
            if op == "new_pi":
                new_processing_instruction_node(a["s"], "d")
                return None
            t = world.objs[a["target"]]
            if op == "add_following":
                t.add_following_siblings(offered())
            elif op == "add_preceding":
                t.add_preceding_siblings(offered())
            elif op == "append":
                t.append_children(offered())
            elif op == "insert":
                t.insert_children(a["index"], offered())
            elif op == "replace":
                t.replace_with(offered())
            elif op in ("setitem", "setitem0", "setitem_in"):
                t[a.get("index", 0)] = offered()
            elif op == "delitem":
                del t[a["index"]]
            elif op == "detach":
                t.detach(retain_child_nodes=a["retain"])
            elif op == "comment_content":
                t.content = a["s"]
            elif op == "pi_target":
                t.target = a["s"]
            else:
                raise ValueError(op)
        return None
    except Exception as e:  # noqa: BLE001
        return type(e).__name__


def sibling_attached_attempts(run: Run, stream, only=None):
    """nodes without a parent that still have siblings: the root of a document with prologue/epilogue, the
    members of a parentless comment/PI chain - offered under no and under default ambient filters"""
    import contextlib

    from delb import Document, altered_default_filters, new_comment_node, new_processing_instruction_node, new_tag_node
    from _delb.exceptions import InvalidOperation
    import trees

    import random

    for sub in ([only] if only is not None else [run.rng.getrandbits(32) for _ in range(40)]):
        rng = random.Random(sub)
        pro = rng.choice(["<!--p-->", "<?pi p?>", "<!--a--><!--b-->", ""])
        epi = rng.choice(["<!--e-->", "<?pi e?>", "<!--e1--><?pi e2?>", ""])
        if not pro and not epi:
            pro = "<!--p-->"
        # the root's own content must not matter (an empty root, a root with text only, with children)
        root_xml = rng.choice(["<root><a/>t</root>", "<root/>", "<root>t</root>", "<root><a/></root>"])
        src = Document(pro + root_xml + epi)
        tgt = Document(rng.choice(["<target><x/></target>", "<target><x/>t</target>"]))
        which = rng.choice(["doc-root", "chain-last", "chain-first", "prologue-first", "prologue-last", "epilogue-first", "epilogue-last"])
        if which.startswith("prologue") and not pro:
            which = "epilogue" + which[8:]
        if which.startswith("epilogue") and not epi:
            which = "prologue" + which[8:]
        if which == "doc-root":
            offered = src.root
        elif which.startswith(("prologue", "epilogue")):
            cont = src.prologue if which.startswith("prologue") else src.epilogue
            offered = cont[0] if which.endswith("first") else cont[-1]
        else:
            c1, c2 = new_comment_node("one"), new_processing_instruction_node("two", "d")
            with altered_default_filters():
                c1.add_following_siblings(c2)
            offered = c2 if which == "chain-last" else c1
        amb = rng.choice(["none", "default"])
        how = rng.choice(["append", "add_following", "insert"])
        case = {"sub": ["siblings", sub],
                "attempt": {"why": "attached", "op": how, "offered": which, "ambient": amb, "prologue": pro, "epilogue": epi,
                            "root": root_xml}}
        before = (str(src), trees.extract(tgt.root))
        raised = None
        try:
            with (contextlib.nullcontext() if amb == "default" else altered_default_filters()):
                if how == "append":
                    tgt.root.append_children(offered)
                elif how == "insert":
                    tgt.root.insert_children(0, offered)
                else:
                    tgt.root[0].add_following_siblings(offered)
        except Exception as e:  # noqa: BLE001
            raised = type(e).__name__
        try:
            after = (str(src), trees.extract(tgt.root))
        except Exception as e:  # noqa: BLE001  the document is no longer in a consistent state
            after = ("serializing raised " + type(e).__name__, None)
        run.case(stream, case, True)
        run.count("attempt", "attached-by-siblings:" + which + ":" + amb)
        if raised != "InvalidOperation":
            run.violation(stream, case, {"why": f"a node with siblings was offered: expected InvalidOperation, got {raised}"})
        if before != after:
            run.violation(stream, case, {"why": "rejected call changed a tree", "before": before, "after": after})


def root_history_attempts(run: Run, stream, only=None):
    """the root of a document stays protected whatever sequence of root assignments (another node, the same node again,
    a former root, assignments that are refused) came before the illegal call"""
    from delb import Document, altered_default_filters, new_tag_node

    import random

    for sub in ([only] if only is not None else [run.rng.getrandbits(32) for _ in range(40)]):
        rng = random.Random(sub)
        pro = rng.choice(["<!--p-->", "<?pi p?>", ""])
        epi = rng.choice(["<!--e-->", ""])
        doc = Document(pro + rng.choice(["<root><a/>t</root>", "<root/>", "<root>t<b>u</b></root>"]) + epi)
        former = [doc.root]
        history = []
        for _ in range(rng.randint(1, 4)):
            k = rng.choice(["same", "same", "new", "former", "attached", "not-a-tag"])
            history.append(k)
            try:
                if k == "same":
                    doc.root = doc.root
                elif k == "new":
                    former.append(doc.root)
                    doc.root = new_tag_node("n" + str(len(former)), children=["x"])
                elif k == "former":
                    n = rng.choice(former)
                    if n is not doc.root:
                        former.append(doc.root)
                    doc.root = n
                elif k == "attached":
                    doc.root = Document("<o><i/></o>").root[0]
                else:
                    doc.root = "text"
            except (TypeError, ValueError):
                pass
        root = doc.root
        op = rng.choice(["detach", "detach-retain", "replace", "add_following", "add_preceding"])
        case = {"sub": ["root-history", sub],
                "attempt": {"why": "detach-doc-root" if op.startswith("detach") else ("replace-root" if op == "replace" else "root-sibling"),
                            "op": op, "history": history, "prologue": pro, "epilogue": epi}}
        before = str(doc)
        raised = None
        try:
            with altered_default_filters():
                if op == "detach":
                    root.detach()
                elif op == "detach-retain":
                    root.detach(retain_child_nodes=True)
                elif op == "replace":
                    root.replace_with("txt")
                elif op == "add_following":
                    root.add_following_siblings("txt")
                else:
                    root.add_preceding_siblings("txt")
        except Exception as e:  # noqa: BLE001
            raised = type(e).__name__
        try:
            after = str(doc)
        except Exception as e:  # noqa: BLE001
            after = "serializing raised " + type(e).__name__
        run.case(stream, case, True)
        run.count("attempt", "after-root-assignments:" + op)
        if raised is None:
            run.violation(stream, case, {"why": "illegal call on the document's root was not rejected", "before": before, "after": after})
        elif raised not in PROPERTY_CLASS[case["attempt"]["why"]]:
            run.violation(stream, case, {"why": f"rejected with {raised}"})
        if before != after:
            run.violation(stream, case, {"why": "rejected call changed the document", "before": before, "after": after})
        if root.document is not doc or doc.root is not root:
            run.violation(stream, case, {"why": "the document and its root no longer refer to each other"})


def document_from_attached(run: Run, stream):
    import trees

    """a node that has a parent cannot become the root of a (new) document without being detached or cloned - also not
    through the Document constructor, which passes a node of a document-less tree through as it is (seeded C09-8)"""
    from delb import Document, altered_default_filters, new_tag_node, tag

    shapes = [lambda: new_tag_node("p", children=[tag("c"), "t"]),
              lambda: new_tag_node("p", children=["a", tag("c", {"k": "v"}, ["x"]), tag("d")]),
              lambda: new_tag_node("p", children=[tag("q", [tag("c")])])]
    for i, make in enumerate(shapes):
        for amb in ("none", "default"):
            parent = make()
            with altered_default_filters():
                keep = [parent] + list(parent.iterate_descendants())  # noqa: F841
                child = next(n for n in parent.iterate_descendants() if getattr(n, "local_name", "") == "c")
                holder = child.parent
            case = {"sub": ["document-from-attached", i], "attempt": {"why": "attached", "op": "Document(node)", "ambient": amb}}
            before = trees.extract(parent)
            raised = None
            try:
                with (contextlib.nullcontext() if amb == "default" else altered_default_filters()):
                    doc = Document(child)
            except Exception as e:  # noqa: BLE001
                raised, doc = type(e).__name__, None
            run.case(stream, case, True)
            run.count("attempt", "document-from-attached:" + (raised or "accepted"))
            after = trees.extract(parent)
            if doc is not None and doc.root is child:
                run.violation(stream, case, {"why": "a node that has a parent was made the root of a document without being detached or cloned",
                                             "parent_tree": after})
            elif doc is not None and (child.parent is not holder or after != before):
                run.violation(stream, case, {"why": "Document(node) changed the tree the node lives in", "before": before, "after": after})
            if raised is not None and (after != before or child.parent is not holder or child.document is not None):
                run.violation(stream, case, {"why": f"Document(attached node) was rejected with {raised} but changed something",
                                             "before": before, "after": after})


def root_sibling_containers(run: Run, stream):
    """Document.prologue / Document.epilogue: out-of-range insert positions raise, text and tag nodes are refused, a
    comment that lives elsewhere is refused - and the document (and the offered node's tree) stay as they were
    (seeded C09-9: insert() appending silently for positions beyond the end)"""
    import trees
    from delb import Document, altered_default_filters, new_comment_node, new_processing_instruction_node, new_tag_node

    rng = run.rng
    for _ in range(24):
        pro = [rng.choice(["<!--p%d-->" % i, "<?pi p%d?>" % i]) for i in range(rng.choice([0, 0, 1, 2, 3]))]
        epi = [rng.choice(["<!--e%d-->" % i, "<?pi e%d?>" % i]) for i in range(rng.choice([0, 0, 1, 2, 3]))]
        xml = "".join(pro) + "<root><a/>t</root>" + "".join(epi)
        doc = Document(xml)
        which = rng.choice(["prologue", "epilogue"])
        cont = getattr(doc, which)
        n = len(pro if which == "prologue" else epi)
        kind = rng.choice(["index", "index", "index", "text", "tag", "attached"])
        other = Document("<!--o--><o><!--in--></o>")
        with altered_default_filters():
            if kind == "index":
                offered, index = rng.choice([new_comment_node("new"), new_processing_instruction_node("new", "x")]), n + rng.choice([1, 2, 5])
            elif kind == "text":
                offered, index = "text", rng.randint(0, n)
            elif kind == "tag":
                offered, index = new_tag_node("t"), rng.randint(0, n)
            else:
                offered, index = rng.choice([other.prologue[0], other.root[0]]), rng.randint(0, n)
            case = {"sub": ["containers", xml], "attempt": {"why": kind, "op": which + ".insert", "index": index, "len": n}}
            before, before_other = str(doc), str(other)
            raised = None
            try:
                cont.insert(index, offered)
            except Exception as e:  # noqa: BLE001
                raised = type(e).__name__
            after, after_other = str(doc), str(other)
        run.case(stream, case, True)
        run.count("attempt", "container-insert:" + kind + ":" + (raised or "accepted"))
        if raised is None:
            run.violation(stream, case, {"why": f"{which}.insert({index}, …) with {n} nodes / an offered {kind} node was not rejected",
                                         "before": before, "after": after})
        elif before != after or before_other != after_other:
            run.violation(stream, case, {"why": f"rejected {which}.insert changed a document", "before": [before, before_other],
                                         "after": [after, after_other]})
        elif not isinstance(offered, str) and kind in ("index", "tag") and (offered.parent is not None or offered.document is not None):
            run.violation(stream, case, {"why": "the offered node of a rejected insert is attached somewhere"})


def guard_request(mirror: E.Mirror, a):
    c = dict(a)
    if c["op"] in ("new_comment", "comment_content"):
        c = {"op": "comment_content", "s": a["s"]}
    elif c["op"] in ("new_pi", "pi_target"):
        c = {"op": "pi_target", "s": a["s"]}
    elif c["op"] == "setitem0":
        c["op"] = "append"  # the property demands the attachment check here as well
    elif c["op"] == "setitem_in":
        c = {"why": c["why"], "op": "replace", "target": c["child"], "offered": c["offered"]}  # node[i] = x is node[i].replace_with(x)
    return {"cmd": "guard", "groups": [t for t in mirror.groups if t is not None], "doc_root": E.tid(mirror.groups[0]), "call": c}


def is_known(a):
    for f in common.known_findings("C09"):
        if f.get("status") != "open":
            continue
        if f["key"] == "setitem-first-child-unchecked" and a["op"] == "setitem0":
            return f["key"]
    return None


def run_one(run: Run, stream, xml, seed_ops, length, rows):
    gc.disable()
    try:
        world = E.World(xml)
        mirror = E.initial_mirror(world)
        ops = []
        for step in range(length if seed_ops is None else len(seed_ops)):
            op = E.gen_op(run.rng, mirror) if seed_ops is None else seed_ops[step]
            if "create" in op:
                world.create(op["create"], mirror.create(op["create"]))
            else:
                try:
                    mirror.apply(copy.deepcopy(op))
                except E.Rejected:
                    break
                if world.apply(op)[0]:
                    break
            ops.append(op)
            got = world.dump(mirror)
            for nid in list(world.objs):
                if nid not in mirror.all_ids():
                    world.forget(nid)
            if got != mirror.live():
                return
        for a in attempts(run.rng, mirror, world):
            case = {"xml": xml, "ops": ops, "attempt": a}
            before = world.dump(mirror, adopt=False)
            raised = call(world, a)
            after = world.dump(mirror, adopt=False)
            run.case(stream, case, True)
            run.count("attempt", a["why"] + ":" + a["op"])
            run.count("raised", raised)
            known = is_known(a)
            if raised is None:
                if not known:
                    run.violation(stream, case, {"why": "illegal call was not rejected", "before": before, "after": after})
            elif raised not in PROPERTY_CLASS[a["why"]] and not known:
                run.violation(stream, case, {"why": f"rejected with {raised}, expected one of {sorted(PROPERTY_CLASS[a['why']])}"})
            if after != before and not known:
                run.violation(stream, case, {"why": "rejected call changed a tree", "raised": raised, "before": before, "after": after})
            if after != before:
                return  # the forest no longer matches the mirror
            rows.append((case, guard_request(mirror, a), raised, known))
    finally:
        gc.enable()


def corpus():
    return [("<r><a/>t<b>x</b></r>", []), ("<r><!--c--><?p d?></r>", [{"op": "detach", "target": 1, "retain": False}])]


def check(run: Run, lean: dict) -> int:
    n = run.budget(120, 3000)
    run.extra["rule"] = (
        "after random Legal histories (0-10 calls): every kind of illegal single-node call applicable to the forest - attached "
        "node offered through add_following/preceding_siblings, append/insert_children, replace_with, node[0]=...; detaching the "
        "document root; replacing a root; retaining children of a parentless node; text/tag as sibling of document root, "
        "detached tag/comment/text roots; out-of-range and negative indexes for insert/setitem/delitem; invalid comment "
        "content and PI targets (constructors and setters); every attempt counts as non-trivial"
    )
    ok = lean.get("driver_ok", True)
    for f in common.known_findings("C09"):
        if f.get("status") == "open":
            print(f"KNOWN-FINDING: property=C09 {f['key']}: {f['description']}")
            run.known_hit.append(f["key"])
    rows = []
    for xml, ops in corpus():
        run_one(run, "corpus", xml, ops, 0, rows)
    for _ in range(n):
        run_one(run, "generated", E.pick_doc(run.rng), None, run.rng.randint(0, 10), rows)
    for _ in range(max(4, n // 10)):
        sibling_attached_attempts(run, "siblings")
        root_history_attempts(run, "root-history")
    document_from_attached(run, "document-from-attached")
    root_sibling_containers(run, "root-sibling containers")
    if ok and rows:
        for (case, req, raised, known), m in zip(rows, run_driver([r[1] for r in rows])):
            if "driver_error" in m:
                raise common.ToolFailure(str(m))
            if known:
                continue
            if m["reject"] != raised:
                run.mismatch("model", case, {"raised": raised}, {"guard model": m["reject"]})
    return run.finish(lean, LEVEL, ASSUME, search=search)


def search(run: Run):
    probe = Run(run.prop, run.tier, run.seed)
    for m in run.mismatches:
        c = m["case"]
        run_one(probe, "search", c["xml"], c["ops"], 0, [])
        if probe.violations:
            return [probe.violations[0]]
    for _ in range(1500):
        run_one(probe, "search", E.pick_doc(probe.rng), None, probe.rng.randint(0, 12), [])
        sibling_attached_attempts(probe, "search")
        root_history_attempts(probe, "search")
        if probe.violations:
            return [probe.violations[0]]
    return None


def replay(payload: dict) -> int:
    bad = 0
    for f in payload.get("failing", []):
        c = f["case"]
        probe = Run("C09", "quick", 0)
        if "sub" in c:
            (sibling_attached_attempts if c["sub"][0] == "siblings" else root_history_attempts)(probe, "replay", only=c["sub"][1])
            print(json.dumps({"attempt": c["attempt"], "violations": [v["detail"] if "detail" in v else v for v in probe.violations]},
                             ensure_ascii=False, default=str)[:1500])
            bad += bool(probe.violations)
            continue
        gc.disable()
        world = E.World(c["xml"])
        mirror = E.initial_mirror(world)
        for op in c["ops"]:
            if "create" in op:
                world.create(op["create"], mirror.create(op["create"]))
            else:
                mirror.apply(copy.deepcopy(op))
                world.apply(op)
            world.dump(mirror)
        before = world.dump(mirror, adopt=False)
        raised = call(world, c["attempt"])
        after = world.dump(mirror, adopt=False)
        gc.enable()
        ok = raised in PROPERTY_CLASS[c["attempt"]["why"]] and before == after
        print(json.dumps({"attempt": c["attempt"], "raised": raised, "unchanged": before == after}, ensure_ascii=False))
        bad += not ok
    return 1 if bad else 0

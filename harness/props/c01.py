"""C01 - tree edits behave like edits on a plain ordered tree."""

from __future__ import annotations

import copy
import json

import common
import edits as E
from common import Run, run_driver

LEVEL = (
    "Lean theorems (Props/C01.lean): the slot/chain mechanism model of delb's editing methods (every DATA/TAIL/APPENDED "
    "case of _add_following_sibling, _add_preceding_sibling, _add_next_element_wrapping_node, _prepend_text_node, detach, "
    "__add_first_child, content assignment, merge_text_nodes, clone) refines list splices on a plain ordered tree with node "
    "identities, for every state and every history. Correspondence: random histories of public API edits on real documents "
    "(all node kinds offered as node / str / tag() / clone, single and multi-node calls, chained text nodes) - after every "
    "call the real trees, with object identities mapped to handles, are compared with the compiled mechanism model, the "
    "Lean plain-tree specification and an independent Python plain-tree mirror."
)
ASSUME = [
    "Legal edits only: non-empty text payloads, no cycles, offered nodes detached (rejections are C09), edits run without ambient filters",
    "every node is referenced by the harness, so no wrapper is evicted (C04 covers collection)",
    "multi-node and composite API calls are expanded in the driver into single-node steps the way the Python methods compose them",
]


def run_history(run: Run, stream, xml, seed_ops=None, length=12):
    """One history. The cyclic collector is switched off meanwhile: a collection may coalesce chained
    text nodes nobody references yet (fresh clones) - that allowance is C04's subject, not C01's."""
    import gc

    gc.disable()
    try:
        return _run_history(run, stream, xml, seed_ops, length)
    finally:
        gc.enable()


def _run_history(run: Run, stream, xml, seed_ops=None, length=12):
    rng = run.rng
    world = E.World(xml)
    mirror = E.initial_mirror(world)
    init = [copy.deepcopy(t) for t in mirror.groups]
    n0 = mirror.next
    ops, dumps = [], []
    bad = None
    for step in range(length if seed_ops is None else len(seed_ops)):
        op = E.gen_op(rng, mirror) if seed_ops is None else seed_ops[step]
        ops.append(op)
        run.count("op", op.get("op", "create"))
        if "create" in op:
            nid = mirror.create(op["create"])
            world.create(op["create"], nid)
            err = None
        else:
            for it in op.get("items", []):
                run.count("item", "clone" if it.get("clone") else next(iter(it)))
            try:
                mirror.apply(copy.deepcopy(op))
            except E.Rejected as r:
                bad = {"step": step, "why": f"generator produced a rejected edit ({r.kind})"}
                ops.pop()
                break
            err, _ = world.apply(op)
        got = world.dump(mirror)
        want = mirror.live()
        dumps.append(got)
        for nid in list(world.objs):
            if nid not in mirror.all_ids():
                world.forget(nid)
        if err is not None or got != want:
            bad = {"step": step, "op": op, "raised": err, "impl": got, "plain tree": want}
            break
    case = {"xml": xml, "ops": ops}
    chained = any(
        a[0] == "x" and b[0] == "x"
        for d in dumps for t in d for _, n in E.walk(t) for a, b in zip(E.kids(n), E.kids(n)[1:])
    )
    run.case(stream, case, chained and len(ops) >= 3)
    run.count("history length", len(ops))
    if bad and "generator" not in bad.get("why", ""):
        run.violation(stream, case, bad)
    return case, init, n0, dumps, bad


def compare_with_model(run: Run, stream, rows):
    reqs = [{"cmd": "edits", "init": init, "next": n0, "ops": case["ops"]} for case, init, n0, _, _ in rows]
    if not reqs:
        return
    for (case, init, n0, dumps, bad), m in zip(rows, run_driver(reqs)):
        if "driver_error" in m:
            raise common.ToolFailure(str(m))
        for i, impl in enumerate(dumps):
            st = m["states"][i]
            if "error" in st:
                if bad and bad.get("step") == i:
                    break
                run.mismatch(stream, case, {"step": i, "impl": impl}, st, "model rejects the edit")
                break
            c = sorted((E.canon(t) for t in st["c"]), key=lambda t: t[1])
            a = sorted((E.canon(t) for t in st["a"]), key=lambda t: t[1])
            if c != a:
                run.mismatch(stream, case, {"step": i, "mechanism": c}, {"spec": a}, "Lean mechanism model != Lean spec")
                break
            if c != impl:
                if bad and bad.get("step") == i:
                    break
                run.mismatch(stream, case, {"step": i, "op": case["ops"][i], "impl": impl}, {"model": c})
                break


def corpus():
    return [
        ("<r><a/>t</r>", [{"op": "add_following", "target": 2, "items": [{"str": "u"}]},
                          {"op": "add_following", "target": 2, "items": [{"def": ["e", [], []]}]}]),
        ("<r>a<b/>c</r>", [{"op": "add_preceding", "target": 1, "items": [{"str": "0"}, {"def": ["e", [], [{"str": "in"}]]}]},
                           {"op": "detach", "target": 2, "retain": False}, {"op": "merge", "target": 0}]),
        ("<r><a>x</a>t</r>", [{"op": "append", "target": 1, "items": [{"str": "y"}, {"str": "z"}]},
                              {"op": "detach", "target": 1, "retain": True}, {"op": "merge", "target": 0}]),
        ("<r>a</r>", [{"op": "append", "target": 0, "items": [{"str": "b"}, {"str": "c"}]},
                      {"op": "add_following", "target": 1, "items": [{"def": ["e", [], []]}]},
                      {"op": "delitem", "target": 0, "index": 1}, {"op": "set_content", "target": 1, "s": "A"}]),
    ]


def check(run: Run, lean: dict) -> int:
    n = run.budget(400, 8000)
    run.extra["rule"] = (
        "random Legal edit histories (8-20 calls) over 12 seed documents: add_following/preceding_siblings, "
        "append/insert_children, detach (with/without retain_child_nodes), replace_with, del node[i], text content "
        "assignment, merge_text_nodes, node creation; offered: str, detached node, tag() definition with children, clone; "
        "targets drawn uniformly from all live nodes (so chained text nodes are hit); non-trivial = a history of >= 3 calls "
        "during which adjacent text nodes existed"
    )
    ok = lean.get("driver_ok", True)
    for f in common.known_findings("C01"):
        if f.get("status") == "open":
            print(f"KNOWN-FINDING: property=C01 {f['key']}: {f['description']}")
            run.known_hit.append(f["key"])
    rows = []
    for xml, ops in corpus():
        rows.append(run_history(run, "corpus", xml, seed_ops=ops))
    for i in range(n):
        rows.append(run_history(run, "generated", E.pick_doc(run.rng), length=run.rng.randint(8, 20)))
    if ok:
        compare_with_model(run, "model", rows)
    return run.finish(lean, LEVEL, ASSUME, search=search)


def search(run: Run):
    probe = Run(run.prop, run.tier, run.seed)
    for m in run.mismatches:
        c = m["case"]
        _, _, _, _, bad = run_history(probe, "search", c["xml"], seed_ops=c["ops"])
        if bad:
            return [{"case": c, "detail": bad}]
    for i in range(3000):
        case, _, _, _, bad = run_history(probe, "search", E.pick_doc(probe.rng), length=probe.rng.randint(8, 25))
        if bad and "generator" not in bad.get("why", ""):
            return [{"case": shrink(case), "detail": bad}]
    return None


def shrink(case):
    probe = Run("C01", "quick", 0)

    def fails(ops):
        try:
            _, _, _, _, bad = run_history(probe, "shrink", case["xml"], seed_ops=ops)
            return bool(bad) and "generator" not in bad.get("why", "")
        except Exception:  # noqa: BLE001
            return False

    ops = case["ops"]
    changed = True
    while changed:
        changed = False
        for i in range(len(ops)):
            cand = ops[:i] + ops[i + 1 :]
            if fails(cand):
                ops, changed = cand, True
                break
    return {"xml": case["xml"], "ops": ops}


def replay(payload: dict) -> int:
    bad_n = 0
    for f in payload.get("failing", []):
        probe = Run("C01", "quick", 0)
        c = f["case"]
        _, _, _, _, bad = run_history(probe, "replay", c["xml"], seed_ops=c["ops"])
        print(json.dumps({"case": c, "detail": bad}, ensure_ascii=False))
        bad_n += bool(bad)
    return 1 if bad_n else 0

"""C12 - a saved document is a complete, decodable copy of the document."""

from __future__ import annotations

import codecs
import io
import json
import os
import re
import tempfile

import common
import trees
from common import Run, run_driver

LEVEL = (
    "Lean theorems (Props/C12.lean) about the model of Document.__serialize (declaration with the upper-cased label, "
    "prologue, root, epilogue, newline separators exactly for formatting serializers): the rendered text starts with the "
    "declaration naming the encoding; the reading side recovers encoding label, prologue, root string and epilogue in order "
    "for every number of comments/PIs and both separator modes; replacing the root keeps prologue and epilogue; the parser "
    "options remove exactly the comments / PIs and nothing else. Correspondence: bytes written by Document.save/write and "
    "str(Document) == model text, newline-translated and encoded by the codec the declaration names; property oracle: the "
    "written bytes are re-read by Document(...) and by lxml and compared with the original root, prologue and epilogue."
)
ASSUME = [
    "the root element's own serialization is the implementation's (its correctness is C02/C03/C13/C19's subject); the model covers the document layer",
    "codecs and io.TextIOWrapper newline translation are Python's (runtime behaviour; checked per case against codecs.encode and str.replace)",
    "re-reading is lxml's parser (checked per case, delb and lxml readers both)",
    "content is representable in the chosen encoding and free of CR (documented limitation)",
]

ENCODINGS = ["utf-8", "UTF-8", "utf-16", "UTF-16", "iso-8859-1", "ISO-8859-1", "ascii", "ASCII", "Utf-8", "us-ascii", "latin1",
             # multi-byte legacy encodings whose registered names differ from Python's codec names (euc_jp, iso2022_jp):
             # the declaration must carry a name a reader knows (seeded C12-9); content from the ASCII repertoire
             "euc-jp", "EUC-KR", "iso-2022-jp", "shift_jis", "windows-1252"]
NEWLINES = [None, None, "", "\n", "\r\n", "\r"]

WORDS = {
    "ascii": ["x", "yz", "lorem", "ipsum", "&", "<", ">", '"', "'", "]]>", "a-b", "1"],
    "latin": ["x", "lorem", "é", "ß", "ÿ", "&", "<", "Ärger", "\xa0"],
    "uni": ["x", "lorem", "é", "漢字", "𝔘", "😀", "&", "<", " ", "ﬁ"],
}


def charset_of(enc):
    name = codecs.lookup(enc).name
    if name == "ascii":
        return "ascii"
    if name == "iso8859-1":
        return "latin"
    if not name.startswith("utf"):
        return "ascii"
    return "uni"


def gen_misc(rng, words):
    if rng.random() < 0.55:
        body = rng.choice(["c", " note ", "a-b", "", " x y ", "é" if "é" in words else "e", rng.choice(words).replace("-", "")])
        if body.endswith("-") or "--" in body:
            body = "c"
        return ["c", body]
    body = rng.choice(["", "x=1", "data  d", 'href="s.css" type="text/css"', rng.choice(words)])
    if "?>" in body:
        body = "x"
    return ["p", rng.choice(["pi", "target", "xml-stylesheet", "q"]), body]


def gen_case(rng):
    enc = rng.choice(ENCODINGS)
    words = WORDS[charset_of(enc)]
    fmt = rng.choice([None, None, {"width": 0, "indentation": "  "}, {"width": 0, "indentation": "\t"},
                      {"width": 0, "indentation": ""}, {"width": 40, "indentation": "  "}, {"width": 12, "indentation": " "}])
    if fmt is None:
        text = lambda g: trees.gen_text(g, ws_prob=0.3, words=words, ws=[" ", "  ", "\n", "\t", "\n  "])  # noqa: E731
    else:
        safe = [w for w in words if w not in ("\xa0", " ")]
        text = lambda g: " ".join(g.choice(safe) for _ in range(g.choice([1, 1, 2, 3, 6])))  # noqa: E731
    root = trees.gen_tree(rng, max_depth=2, max_kids=3, nss=["", "", "urn:x", "urn:y"], p_comment=0.1, p_pi=0.08,
                          text=text, inherit_ns=0.7, stress=charset_of(enc) == "uni")
    if charset_of(enc) != "uni":
        root = restrict_attrs(root, charset_of(enc))
    n_pro = rng.choice([0, 0, 1, 1, 2, 3, 5])
    n_epi = rng.choice([0, 0, 1, 1, 2, 3, 5])
    case = {
        "how": rng.choice(["parsed", "api", "api"]),
        "root": root,
        "prologue": [gen_misc(rng, words) for _ in range(n_pro)],
        "epilogue": [gen_misc(rng, words) for _ in range(n_epi)],
        "encoding": enc,
        "newline": rng.choice(NEWLINES),
        "fmt": fmt,
        "via": rng.choice(["save", "write", "str"]),
        "insert_order": rng.choice(["append", "prepend", "insert"]),
        "newroot": trees.gen_tree(rng, max_depth=1, max_kids=2, nss=["", "urn:x"], text=text, stress=False) if rng.random() < 0.5 else None,
        "drop": rng.choice([[False, False], [True, False], [False, True], [True, True]]),
        "reuse_options": rng.random() < 0.4,
        # options that must not influence which node kinds are kept (no external entities, no network in the sources)
        "other_options": {"resolve_entities": rng.random() < 0.7, "unplugged": rng.random() < 0.4},
    }
    return case


def restrict_attrs(t, cs):
    if t[0] != "t":
        return t
    ok = (lambda s: all(ord(c) < 128 for c in s)) if cs == "ascii" else (lambda s: all(ord(c) < 256 for c in s))
    return ["t", t[1], t[2], [[a[0], a[1], a[2] if ok(a[2]) else "v"] for a in t[3]], [restrict_attrs(k, cs) for k in t[4]]]


def misc_xml(n):
    if n[0] == "c":
        return f"<!--{n[1]}-->"
    return f"<?{n[1]} {n[2]}?>" if n[2] else f"<?{n[1]}?>"


def source_xml(case):
    return "".join(misc_xml(n) for n in case["prologue"]) + trees.to_xml(case["root"]) + "".join(
        misc_xml(n) for n in case["epilogue"])


def build_doc(case):
    from delb import Document, altered_default_filters

    if case["how"] == "parsed":
        return Document(source_xml(case))
    # positions given to the containers' insert() are relative to what the ambient filters show
    # (observation recorded in DESIGN.md), so the document is built with all node kinds visible
    with altered_default_filters():
        return _build_api(case, Document)


def _build_api(case, Document):
    doc = Document(trees.build_api(case["root"]))
    order = case["insert_order"]
    for name in ("prologue", "epilogue"):
        cont = getattr(doc, name)
        items = case[name]
        if order == "append":
            for n in items:
                cont.append(trees.build_api(n))
        elif order == "prepend":
            for n in reversed(items):
                cont.prepend(trees.build_api(n))
        else:  # middle insertions: first, last, then the rest before the last
            if items:
                cont.append(trees.build_api(items[0]))
            if len(items) > 1:
                cont.append(trees.build_api(items[-1]))
                for n in items[1:-1]:
                    cont.insert(len(cont) - 1, trees.build_api(n))
    return doc


def fmt_of(case):
    from delb import FormatOptions

    f = case["fmt"]
    if f is None:
        return None
    return FormatOptions(align_attributes=False, indentation=f["indentation"], width=f["width"])


def observe(doc):
    return {
        "root": trees.extract(doc.root),
        "prologue": [trees.extract(n) for n in doc.prologue],
        "epilogue": [trees.extract(n) for n in doc.epilogue],
    }


def nl_effective(nl):
    return os.linesep if nl is None else ("\n" if nl == "" else nl)


def run_impl(case):
    """everything observed of the implementation for one case"""
    from delb import DefaultStringOptions, Document, ParserOptions

    doc = build_doc(case)
    keep = list(doc.root.iterate_descendants())  # noqa: F841
    res = {"before": observe(doc)}
    fo = fmt_of(case)
    try:
        res["root_str"] = doc.root.serialize(format_options=fo)
        if case["via"] == "str":
            DefaultStringOptions.format_options = fo
            DefaultStringOptions.newline = case["newline"]
            try:
                res["text"] = str(doc)
            finally:
                DefaultStringOptions.reset_defaults()
        elif case["via"] == "write":
            buf = trees.KeepBytesIO()
            doc.write(buf, encoding=case["encoding"], format_options=fo, newline=case["newline"])
            res["bytes"] = buf.value()
        else:
            with tempfile.TemporaryDirectory(prefix="c12-", dir="/dev/shm" if os.path.isdir("/dev/shm") else None) as d:
                from pathlib import Path

                p = Path(d) / "doc.xml"
                doc.save(p, encoding=case["encoding"], format_options=fo, newline=case["newline"])
                res["bytes"] = p.read_bytes()
    except Exception as e:  # noqa: BLE001
        res["err"] = f"{type(e).__name__}: {e}"
        return res
    res["after"] = observe(doc)
    # reading back
    data = res.get("bytes")
    if data is None:
        data = res["text"].encode("utf-8")
    try:
        opts = ParserOptions(reduce_whitespace=True) if fo is not None else None
        back = Document(data, parser_options=opts)
        res["reread"] = observe(back)
    except Exception as e:  # noqa: BLE001
        res["reread_err"] = f"{type(e).__name__}: {e}"
    try:
        from lxml import etree

        el = etree.fromstring(data)
        pro, epi = [], []
        s = el.getprevious()
        while s is not None:
            pro.insert(0, trees.extract_lxml(s))
            s = s.getprevious()
        s = el.getnext()
        while s is not None:
            epi.append(trees.extract_lxml(s))
            s = s.getnext()
        res["lxml"] = {"root": trees.extract_lxml(el), "prologue": pro, "epilogue": epi,
                       "docinfo_encoding": el.getroottree().docinfo.encoding}
    except Exception as e:  # noqa: BLE001
        res["lxml_err"] = f"{type(e).__name__}: {e}"
    # a second serialization after comments/PIs were added next to the root through the *node* API (not through the
    # prologue/epilogue containers): what is written follows the live tree (seeded C12-7: containers that remember)
    if case.get("late", True):
        try:
            from delb import new_comment_node, new_processing_instruction_node

            doc2 = build_doc(case)
            keep2 = list(doc2.root.iterate_descendants())  # noqa: F841
            str(doc2)  # a first serialization reads both containers
            doc2.root.add_following_siblings(new_comment_node("late-after"))
            doc2.root.add_preceding_siblings(new_processing_instruction_node("late", "before"))
            if len(doc2.prologue) > 1:
                doc2.prologue[0].add_preceding_siblings(new_comment_node("late-first"))
            buf = trees.KeepBytesIO()
            doc2.write(buf)
            res["late"] = {"observed": observe(doc2), "reread": observe(Document(buf.value()))}
        except Exception as e:  # noqa: BLE001
            res["late"] = {"err": f"{type(e).__name__}: {e}"}
    # root replacement: the current root assigned again (a transformation that works in place and returns its argument)
    # is a replacement as well
    try:
        doc.root = doc.root
        res["self_assigned"] = observe(doc)
    except Exception as e:  # noqa: BLE001
        res["self_assigned"] = {"err": f"{type(e).__name__}: {e}"}
    if case["newroot"] is not None:
        try:
            new = trees.build_api(case["newroot"])
            doc.root = new
            res["replaced"] = observe(doc)
        except Exception as e:  # noqa: BLE001
            res["replace_err"] = f"{type(e).__name__}: {e}"
    # parser options
    try:
        c, p = case["drop"]
        other = case.get("other_options", {})
        if case.get("reuse_options"):
            # one options object, used for another configuration first and reconfigured through its attributes
            opts = ParserOptions(remove_comments=not c, remove_processing_instructions=not p, **other)
            Document(source_xml(case), parser_options=opts)
            opts.remove_comments, opts.remove_processing_instructions = c, p
        else:
            opts = ParserOptions(remove_comments=c, remove_processing_instructions=p, **other)
        d2 = Document(source_xml(case), parser_options=opts)
        res["dropped"] = observe(d2)
    except Exception as e:  # noqa: BLE001
        res["drop_err"] = f"{type(e).__name__}: {e}"
    return res


def lean_requests(case, res):
    return [
        {"cmd": "doc", "formatted": case["fmt"] is not None, "encoding": "utf-8" if case["via"] == "str" else case["encoding"],
         "prologue": case["prologue"], "epilogue": case["epilogue"], "root": res.get("root_str", "")},
        {"cmd": "dropkinds", "comments": case["drop"][0], "pis": case["drop"][1], "tree": case["root"],
         "prologue": case["prologue"], "epilogue": case["epilogue"]},
    ]


def canon_misc(n):
    # lxml reports a PI without content as None -> ""; nothing else to canonicalise
    return n


def reduced(tree):
    """whitespace-insensitive view used for formatted output: text collapsed, whitespace-only text dropped"""
    if tree[0] == "x":
        return ["x", " ".join(tree[1].split())]
    if tree[0] != "t":
        return tree
    kids = [reduced(k) for k in trees.merge_text(tree)[4]]
    kids = [k for k in kids if not (k[0] == "x" and k[1] == "")]
    return ["t", tree[1], tree[2], trees.sort_attrs(tree[3]), kids]


def same_root(case, a, b):
    if case["fmt"] is None:
        return trees.canon(a) == trees.canon(b)
    return reduced(a) == reduced(b)


def strip_attr_ns(t):
    if t[0] != "t":
        return t
    return ["t", t[1], t[2], sorted([a[1], a[2]] for a in t[3]), [strip_attr_ns(k) for k in t[4]]]


CODEC_LABEL = {"utf-8": "utf-8", "utf-16": "utf-16", "iso8859-1": "latin-1", "ascii": "ascii"}
DECL = re.compile(r'^<\?xml version="1\.0" encoding="([^"]*)"\?>')


def judge(run: Run, stream, case, res, models):
    run.case(stream, case, len(case["prologue"]) + len(case["epilogue"]) > 0)
    run.count("encoding", codecs.lookup(case["encoding"]).name)
    run.count("newline", repr(case["newline"]))
    run.count("format", "none" if case["fmt"] is None else f"width={case['fmt']['width']}")
    run.count("via", case["via"])
    run.count("prologue", len(case["prologue"]))
    run.count("epilogue", len(case["epilogue"]))
    run.count("how", case["how"])
    want = {"root": case["root"], "prologue": case["prologue"], "epilogue": case["epilogue"]}
    b = res["before"]
    if trees.canon(b["root"]) != trees.canon(want["root"]) or b["prologue"] != want["prologue"] or b["epilogue"] != want["epilogue"]:
        run.violation(stream, case, {"why": "document as built differs from what was put in", "observed": b})
        return
    if "err" in res:
        run.count("outcome", "raised")
        run.violation(stream, case, {"why": f"writing raised {res['err']}"})
        return
    run.count("outcome", "ok")
    if res["after"] != res["before"]:
        run.violation(stream, case, {"why": "writing changed the document", "after": res["after"]})
    # 1. declaration names the encoding actually used
    enc = "utf-8" if case["via"] == "str" else case["encoding"]
    if "bytes" in res:
        try:
            text = res["bytes"].decode(enc)
        except UnicodeError as e:
            run.violation(stream, case, {"why": f"bytes are not in the requested encoding: {e}"})
            return
        if text.startswith("﻿"):
            text = text[1:]
    else:
        text = res["text"]
    m = DECL.match(text)
    if not m:
        run.violation(stream, case, {"why": "output does not start with an XML declaration", "head": text[:80]})
        return
    try:
        declared = codecs.lookup(m.group(1)).name
    except LookupError:
        declared = None
    if declared != codecs.lookup(enc).name:
        run.violation(stream, case, {"why": "declared encoding is not the one used", "declared": m.group(1), "used": enc})
    # 2. complete and in order, read back by delb and lxml
    for reader, key in (("delb", "reread"), ("lxml", "lxml")):
        if key not in res:
            run.violation(stream, case, {"why": f"{reader} cannot read the output: {res.get(key + '_err')}", "head": text[:200]})
            continue
        r = res[key]
        if r["prologue"] != want["prologue"] or r["epilogue"] != want["epilogue"]:
            run.violation(stream, case, {"why": f"prologue/epilogue re-read by {reader} differ", "got": [r["prologue"], r["epilogue"]],
                                         "text": text[:300]})
        a, e = r["root"], want["root"]
        if reader == "lxml":
            a, e = strip_attr_ns(trees.canon(a)), strip_attr_ns(trees.canon(e))
            ok = (a == e) if case["fmt"] is None else (reduced_l(a) == reduced_l(e))
        else:
            ok = same_root(case, a, e)
        if not ok:
            run.violation(stream, case, {"why": f"root re-read by {reader} differs", "got": r["root"], "text": text[:300]})
    if "lxml" in res and "bytes" in res:
        de = res["lxml"]["docinfo_encoding"]
        if de is None or codecs.lookup(de).name != codecs.lookup(enc).name:
            run.violation(stream, case, {"why": "lxml sees another encoding", "lxml": de, "used": enc})
    # 3. root replacement
    if "late" in res:
        late = res["late"]
        want_late = {"root": res["after"]["root"],
                     "prologue": ([["c", "late-first"]] if res["after"]["prologue"] else []) + res["after"]["prologue"]
                     + [["p", "late", "before"]],
                     "epilogue": [["c", "late-after"]] + res["after"]["epilogue"]}
        if "err" in late:
            run.violation(stream, case, {"why": f"adding comments/PIs next to the root and writing again raised {late['err']}"})
        else:
            for k in ("observed", "reread"):
                got = late[k]
                if got["prologue"] != want_late["prologue"] or got["epilogue"] != want_late["epilogue"] or (
                        k == "observed" and got["root"] != want_late["root"]):
                    run.violation(stream, case, {"why": f"second serialization after adding root siblings through the node API: {k} "
                                                        "prologue/epilogue differ from the live tree", "got": got, "want": want_late})
    if res.get("self_assigned") != res["after"]:
        run.violation(stream, case, {"why": "assigning the document's own root again changed the document", "got": res.get("self_assigned")})
    if case["newroot"] is not None:
        if "replace_err" in res:
            run.violation(stream, case, {"why": f"replacing the root raised {res['replace_err']}"})
        else:
            r = res["replaced"]
            if r["prologue"] != want["prologue"] or r["epilogue"] != want["epilogue"] or trees.canon(r["root"]) != trees.canon(case["newroot"]):
                run.violation(stream, case, {"why": "replacing the root lost or changed prologue/epilogue", "got": r})
    # 4. parser options
    c, p = case["drop"]

    def drop_list(l):
        return [n for n in l if not ((n[0] == "c" and c) or (n[0] == "p" and p))]

    def drop_tree(t):
        if t[0] != "t":
            return t
        return ["t", t[1], t[2], t[3], [drop_tree(k) for k in drop_list(t[4])]]

    if "drop_err" in res:
        run.violation(stream, case, {"why": f"parsing with options raised {res['drop_err']}"})
    else:
        d = res["dropped"]
        exp = {"root": trees.canon(trees.merge_text(drop_tree(case["root"]))), "prologue": drop_list(case["prologue"]), "epilogue": drop_list(case["epilogue"])}
        got = {"root": trees.canon(d["root"]), "prologue": d["prologue"], "epilogue": d["epilogue"]}
        if got != exp:
            run.violation(stream, case, {"why": "parser options removed something else than exactly the comments/PIs", "got": got, "expected": exp})
    # model
    if models is None:
        return
    mdoc, mdrop = models[:2]
    for mm in models:
        if "driver_error" in mm:
            raise common.ToolFailure(str(mm))
    expect_text = mdoc["text"]
    if "bytes" in res:
        exp_bytes = expect_text.replace("\n", nl_effective(case["newline"])).encode(enc)
        if exp_bytes != res["bytes"]:
            run.mismatch(stream, case, repr(res["bytes"][:400]), repr(exp_bytes[:400]), "written bytes differ from the model's text, newline-translated and encoded")
        if len(models) == 4:
            menc, mdec = models[2:]
            run.count("codec-model", "encode+decode")
            if menc.get("bytes") != list(res["bytes"]):
                run.mismatch(stream, case, repr(res["bytes"][:200]), str(menc)[:400], "written bytes differ from the Lean codec model's encoding of the model's text")
            if "\r" not in expect_text and mdec.get("eol") != expect_text:
                run.mismatch(stream, case, expect_text[:300], str(mdec)[:300], "the Lean codec model does not read the written bytes back into the model's text")
    else:
        nl = case["newline"]
        exp = expect_text if nl in (None, "", "\n") else expect_text.replace("\n", nl)
        if exp != res["text"]:
            run.mismatch(stream, case, res["text"][:400], exp[:400], "str(document) differs from the model's text")
    rd = mdoc["read"]
    if rd is None or rd["prologue"] != case["prologue"] or rd["epilogue"] != case["epilogue"] or rd["root"] != res["root_str"]:
        run.mismatch(stream, case, None, rd, "Lean readDoc(docPieces) does not give the parts back")
    if "dropped" in res:
        d = res["dropped"]
        if trees.canon(trees.merge_text(mdrop["tree"])) != trees.canon(d["root"]) or mdrop["prologue"] != d["prologue"] or mdrop["epilogue"] != d["epilogue"]:
            run.mismatch(stream, case, d, mdrop, "parser options: model dropKinds differs from the parsed document")


def reduced_l(t):
    """`reduced` for attribute-namespace-stripped trees"""
    if t[0] == "x":
        return ["x", " ".join(t[1].split())]
    if t[0] != "t":
        return t
    kids = []
    for k in t[4]:
        k = reduced_l(k)
        if k[0] == "x" and kids and kids[-1][0] == "x":
            kids[-1] = ["x", " ".join((kids[-1][1] + " " + k[1]).split())]
        elif not (k[0] == "x" and k[1] == ""):
            kids.append(k)
    return ["t", t[1], t[2], t[3], kids]


def run_cases(run: Run, cases, stream, lean_ok=True):
    rows = []
    for c in cases:
        try:
            res = run_impl(c)
        except Exception as e:  # noqa: BLE001
            run.case(stream, c, False)
            run.violation(stream, c, f"building the case raised {type(e).__name__}: {e}")
            continue
        rows.append((c, res))
    if lean_ok and rows:
        reqs = [r for c, res in rows for r in lean_requests(c, res)]
        out = run_driver(reqs)
        models = [(out[2 * i], out[2 * i + 1]) for i in range(len(rows))]
        # byte level: the codec / newline model (Model/Codec.lean, theorems in Props/C12Codec.lean) writes the model's text
        # and reads the real bytes
        creqs, idx = [], []
        for i, (c, res) in enumerate(rows):
            if "bytes" in res and "text" in models[i][0]:
                label = CODEC_LABEL.get(codecs.lookup(c["encoding"]).name)
                if label is None:  # a codec the Lean byte-level model does not cover: compared with Python's codec only
                    continue
                creqs.append({"cmd": "encode", "codec": label, "newline": c["newline"], "linesep": os.linesep, "text": models[i][0]["text"]})
                creqs.append({"cmd": "decode", "codec": label, "bytes": list(res["bytes"])})
                idx.append(i)
        cout = run_driver(creqs) if creqs else []
        for k, i in enumerate(idx):
            models[i] = models[i] + (cout[2 * k], cout[2 * k + 1])
    else:
        models = [None] * len(rows)
    for (c, res), m in zip(rows, models):
        judge(run, stream, c, res, m)


def corpus():
    base = {"how": "parsed", "root": ["t", "", "r", [], [["x", "t"], ["t", "", "e", [], []]]], "prologue": [["c", "a"], ["p", "pi", "x"]],
            "epilogue": [["c", "z"], ["p", "q", ""]], "encoding": "utf-8", "newline": None, "fmt": None, "via": "write",
            "insert_order": "append", "newroot": ["t", "", "n", [], []], "drop": [True, False]}
    out = [base]
    for enc in ("utf-16", "iso-8859-1", "ascii"):
        for nl in (None, "\r\n", "\r"):
            for fmt in (None, {"width": 0, "indentation": "  "}, {"width": 20, "indentation": "  "}):
                for via in ("save", "str"):
                    out.append(dict(base, encoding=enc, newline=nl, fmt=fmt, via=via, how="api", drop=[True, True]))
    out.append(dict(base, prologue=[], epilogue=[["c", "only"]], how="api", insert_order="prepend"))
    out.append(dict(base, prologue=[["p", "only", ""]], epilogue=[], how="api", insert_order="insert"))
    return out


def check(run: Run, lean: dict) -> int:
    n = run.budget(1200, 30000)
    run.extra["rule"] = (
        "documents (parsed from text, or built through the API with prologue/epilogue filled by append/prepend/insert) with 0-5 "
        "comments/PIs before and after the root x encoding labels (utf-8, utf-16, iso-8859-1, ascii and case/alias variants; content "
        "drawn from the encoding's repertoire incl. astral characters for UTF) x newline (None, '', LF, CRLF, CR) x format options "
        "(none, indent-only with 3 indentations, wrapping widths 40/12) x route (save, write, str); plus root replacement and the four "
        "remove_comments/remove_processing_instructions settings; non-trivial = at least one root sibling"
    )
    ok = lean.get("driver_ok", True)
    for f in common.known_findings("C12"):
        if f.get("status") == "open":
            print(f"KNOWN-FINDING: property=C12 {f['key']}: {f['description']}")
            run.known_hit.append(f["key"])
            if f["key"] == "python-only-encoding-label":
                run.extra["python_only_labels_replayed"] = replay_labels(f["replay"])
    run_cases(run, corpus(), "corpus", ok)
    run_cases(run, [gen_case(run.rng) for _ in range(n)], "generated", ok)
    return run.finish(lean, LEVEL, ASSUME, search=search)


def replay_labels(rep: dict) -> dict:
    """the open finding python-only-encoding-label: which of the recorded labels still give an unreadable file"""
    import io

    from delb import Document

    class Keep(io.BytesIO):
        def close(self):
            pass

    out = {}
    for label in [rep["encoding"]] + rep.get("labels_failing_alike", []):
        buf = Keep()
        try:
            Document(rep["xml"]).write(buf, encoding=label)
            back = Document(buf.getvalue())
            out[label] = "reads back" if str(back.root) == rep["xml"] else "reads back differently"
        except Exception as e:  # noqa: BLE001
            out[label] = type(e).__name__
    return out


def search(run: Run):
    probe = Run(run.prop, run.tier, run.seed)
    cands = [m["case"] for m in run.mismatches] + corpus() + [gen_case(run.rng) for _ in range(8000)]
    for c in cands:
        try:
            res = run_impl(c)
        except Exception as e:  # noqa: BLE001
            return [{"case": c, "detail": f"raised {type(e).__name__}: {e}"}]
        judge(probe, "search", c, res, None)
        if probe.violations:
            return [probe.violations[0]]
    return None


def replay(payload: dict) -> int:
    bad = 0
    for f in payload.get("failing", []):
        probe = Run("C12", "quick", 0)
        res = run_impl(f["case"])
        judge(probe, "replay", f["case"], res, None)
        res.pop("bytes", None)
        print(json.dumps({"case": f["case"], "violations": probe.violations}, ensure_ascii=False, default=str))
        bad += bool(probe.violations)
    return 1 if bad else 0

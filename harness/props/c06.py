"""C06 - XPath queries select what XPath 1.0 says they select."""

from __future__ import annotations

import json
import re

import common
import trees
from common import Run, run_driver

LEVEL = (
    "Lean theorems (Props/C06.lean) about the evaluator model (Model/XPath/Eval.lean: axis generators, node tests with "
    "prefix resolution, candidate list and per-predicate (position,size) renumbering, per-step and per-expression "
    "de-duplication, Python value semantics of predicate operators): results are duplicate-free, each axis yields exactly "
    "its axis relation in axis order, a step selects exactly the axis nodes passing test and predicates under proximity "
    "positions, paths compose, unions are unions, document-order sorting is by address. Correspondence: result handle "
    "lists (order included) of the real xpath() vs the compiled model for grammar-generated expressions, documents, context "
    "nodes and prefix maps; property oracle: lxml's XPath 1.0 engine on the same tree with the three established deviations "
    "rewritten; CSS selectors vs lxml.cssselect."
)
ASSUME = [
    "the reference engine is lxml/libxml2; delb's established deviations are rewritten into standard XPath before the comparison",
    "recorded findings are excluded from the generated stream and replayed separately (attribute comparison of absent/empty "
    "attributes, non-literal number predicates, axes/.. from the document node, node-type tests on the document node)",
]

AXES = ["following", "preceding", "child", "descendant", "descendant-or-self", "parent", "ancestor", "ancestor-or-self",
        "following-sibling", "preceding-sibling", "self"]


# ------------------------------------------------------------------ documents
def gendoc(rng, depth=0, dflt=None):
    name = rng.choice(["a", "b", "c"] * 4 + ["x-y", "a.b", "n_1", "é"])
    pfx = rng.choice(["", "", "p:"]) if depth else ""
    if depth == 0:
        # a third of the documents declare a default namespace on the root (so that context nodes are namespaced
        # without a prefix); inside those some elements undeclare it again
        dflt = rng.choice([None, None, None, "d", "d", "http://www.w3.org/1999/xhtml"])
    attrs = ""
    for an in ["x", "y"]:
        if rng.random() < 0.4:
            attrs += ' %s="%s"' % (an, rng.choice(["1", "2", "ab", "b"]))
    if rng.random() < 0.15:
        attrs += ' p:z="1"'
    decl = ' xmlns:p="u"' if depth == 0 else ""
    if depth == 0 and dflt:
        decl += ' xmlns="%s"' % dflt
    elif dflt and not pfx and rng.random() < 0.15:
        decl += ' xmlns=""'
        dflt = None
    out = "<%s%s%s%s>" % (pfx, name, decl, attrs)
    if depth < 3:
        for _ in range(rng.randrange(2, 5) if depth == 0 else rng.randrange(0, 4)):
            r = rng.random()
            if r < 0.55:
                out += gendoc(rng, depth + 1, dflt)
            elif r < 0.8:
                out += rng.choice(["t", "tt u"])
            elif r < 0.9:
                out += "<!--c-->"
            else:
                out += "<?pi d?>"
    return out + "</%s%s>" % (pfx, name)


# ------------------------------------------------------------------ expressions (supported grammar)
def genpred(rng, d=0):
    r = rng.random()
    if r < 0.25:
        return str(rng.choice([1, 1, 1, 2, 2, 3]))
    if r < 0.32:
        return "position()=last()"
    if r < 0.42:
        return "@" + rng.choice(["x", "y", "p:z"])
    if r < 0.55:
        return '@%s="%s"' % (rng.choice(["x", "y"]), rng.choice(["1", "2", "ab"]))
    if r < 0.65:
        return "position()%s%d" % (rng.choice(["=", "!=", "<", ">", "<=", ">="]), rng.randrange(1, 4))
    if r < 0.73:
        return '%s(@%s,"%s")' % (rng.choice(["contains", "starts-with"]), rng.choice(["x", "y"]), rng.choice(["a", "1", "b"]))
    if r < 0.8 and d < 2:
        return "not(%s)" % genpred_bool(rng, d + 1)
    if r < 0.86 and d < 2:
        return "%s %s %s" % (genpred_bool(rng, d + 1), rng.choice(["and", "or"]), genpred_bool(rng, d + 1))
    if r < 0.93 and d < 2:
        # operator precedence without parentheses: `and` binds tighter than `or`
        return "%s %s %s %s %s" % (genatom(rng), rng.choice(["and", "or"]), genatom(rng), rng.choice(["and", "or"]), genatom(rng))
    return "(%s)" % genpred_bool(rng, d + 1) if d < 2 else "@x"


def genatom(rng):
    return rng.choice(["@x", "@y", '@x="1"', '@y="b"', "position()=1", "position()>1", 'contains(@y,"b")', "@p:z"])


def genpred_bool(rng, d):
    for _ in range(10):
        p = genpred(rng, d)
        if not p.isdigit():
            return p
    return "@x"


def genstep(rng, axes):
    ax = rng.choice(axes + ["", "", "", ""])
    nt = rng.choice(["a", "b", "c", "*", "*", "*", "*", "p:a", "p:*", "x-y", "a.b", "n_1", "é", "p:x-y", "svg:a", "svg:*", "text()", "comment()", "processing-instruction()",
                     'processing-instruction("pi")', "node()", "node()"])
    s = (ax + "::" if ax else "") + nt
    for _ in range(rng.choice([0, 0, 0, 0, 1, 1, 2])):
        s += "[%s]" % genpred(rng)
    return s


def genpath(rng):
    if rng.random() < 0.04:
        # several context nodes reach the document node through an ancestor axis, child/self steps follow: every selected
        # node once (seeded C06-8: de-duplication dropped where "it cannot happen")
        first = rng.choice(["//a", "//b", "//*", "descendant::a", "a/b", ".//c", "//text()", "*"])
        mid = rng.choice(["ancestor::node()", "ancestor-or-self::node()"])
        rest = "/".join(rng.choice(["*", "r", "a", "self::*", "child::*", "b", "*[1]"]) for _ in range(rng.choice([1, 1, 2])))
        return first + "/" + mid + "/" + rest
    n = rng.choice([1, 1, 1, 2, 2, 3])
    lead = rng.choice(["", "", "", "/", "//", "//", ".//"])
    steps = [genstep(rng, AXES) for _ in range(n)]
    if lead in ("/", "//"):
        # from the document node only child/descendant(-or-self) work (other axes: recorded finding)
        steps[0] = genstep(rng, ["child", "descendant", "descendant-or-self"])
    for i in range(1 if lead in ("/", "//") else 0, len(steps)):
        if rng.random() < 0.06:
            steps[i] = rng.choice([".", "..", "."])
    seps = [rng.choice(["/", "/", "/", "//"]) for _ in steps[1:]]
    p = steps[0] + "".join(a + b for a, b in zip(seps, steps[1:]))
    return lead + p


def genexpr(rng):
    e = genpath(rng)
    if rng.random() < 0.15:
        e += " | " + genpath(rng)
    return e


KNOWN_PATTERNS = [
    ("attribute-compare-absent", re.compile(r'@[\w:]+\s*(!=|=\s*"")')),
    ("not-boolean-empty-attribute", None),  # needs the document: not()/boolean() over an attribute whose value is ""
]


# ------------------------------------------------------------------ implementation
def run_impl(case):
    from delb import Document, altered_default_filters
    from _delb.exceptions import XPathEvaluationError, XPathParsingError

    doc = Document(case["xml"])
    with altered_default_filters():
        nodes = [doc.root] + list(doc.root.iterate_descendants())
    handle = {id(n): i for i, n in enumerate(nodes)}
    ctx = nodes[case["ctx"] % len(nodes)]
    ns = None if case["ns"] is None else dict(case["ns"])
    try:
        res = ctx.xpath(case["expr"], namespaces=ns)
        ids = [handle.get(id(n), -1) for n in res]
        out = {"ok": ids}
        if all(type(n).__name__ == "TagNode" for n in res):
            out["sorted"] = [handle.get(id(n), -1) for n in res.in_document_order()]
    except XPathParsingError:
        out = {"err": "parse"}
    except XPathEvaluationError:
        out = {"err": "XPathEvaluationError"}
    except Exception as e:  # noqa: BLE001
        out = {"err": type(e).__name__}
    return doc, nodes, ctx, out


def ptree(nodes):
    """id-tree of the document with lxml-level attribute namespaces (ids = pre-order positions)"""
    from lxml import etree
    from delb import altered_default_filters, TagNode, TextNode, CommentNode

    handle = {id(n): i for i, n in enumerate(nodes)}

    def conv(n):
        i = handle[id(n)]
        if isinstance(n, TagNode):
            attrs = []
            for k, v in n._etree_obj.attrib.items():
                q = etree.QName(k)
                attrs.append([q.namespace or "", q.localname, v])
            with altered_default_filters():
                return ["t", i, n.namespace, n.local_name, attrs, [conv(c) for c in n.iterate_children()]]
        if isinstance(n, TextNode):
            return ["x", i, n.content]
        if isinstance(n, CommentNode):
            return ["c", i, n.content]
        return ["p", i, n.target, n.content]

    return conv(nodes[0])


def path_of(nodes, ctx):
    from delb import altered_default_filters

    p = []
    with altered_default_filters():
        n = ctx
        while n.parent is not None:
            p.append(n.index)
            n = n.parent
    return list(reversed(p))


# ------------------------------------------------------------------ reference engine (lxml), restricted grammar
SAFE_STEP = re.compile(r"^(?:(child|descendant|descendant-or-self|parent|ancestor|ancestor-or-self|following-sibling|preceding-sibling|self)::)?"
                       r"(a|b|c|\*|p:a|p:\*|svg:a|svg:\*|text\(\)|comment\(\)|processing-instruction\(\)|processing-instruction\(\"pi\"\)|node\(\))"
                       r"((?:\[[^\[\]]*\])*)$")


def lxml_reference(case, nodes, ctx):
    """XPath 1.0 result through lxml for expressions of the safe sub-grammar, else None.
    Deviations rewritten: node() -> * (tag nodes only)."""
    expr = case["expr"]
    if "|" in expr or ".." in expr or expr.startswith("/") or "." in expr.replace("()", ""):
        return None
    # `//` is the abbreviation of /descendant-or-self::node()/ (node() is rewritten below)
    expr = expr.replace("//", "/descendant-or-self::node()/")
    if type(ctx).__name__ != "TagNode":
        return None
    # deviation 1: an unprefixed name addresses the default namespace declared for the query
    if case["ns"] is None:
        default = ctx.namespace
        prefixes = {}
    else:
        d = dict(case["ns"])
        default = d.get("", "")
        prefixes = {k: v for k, v in d.items() if k}
    steps = expr.split("/")
    out = []
    for s in steps:
        m = SAFE_STEP.match(s)
        if not m:
            return None
        preds = m.group(3)
        if "!=" in preds or '=""' in preds or "boolean(" in preds:
            return None
        if "not(" in preds and "@" in preds:
            return None  # recorded finding: not() over an attribute looks at its value
        if m.group(1) in ("parent", "ancestor", "ancestor-or-self") and "(" in m.group(2):
            return None  # recorded finding: the document node passes every node-type test
        test = m.group(2)
        if test == "node()":
            test = "*"  # deviation 3: node() stands for tag nodes
        elif test in ("a", "b", "c") and default:
            test = "dflt__:" + test
        if ":" in test and test.split(":")[0] not in prefixes:
            return None  # the library falls back to its common namespaces / raises: not the reference's business
        out.append((m.group(1) + "::" if m.group(1) else "") + test + preds)
    lexpr = "/".join(out)
    nsmap = dict(prefixes)
    if default:
        nsmap["dflt__"] = default
    try:
        res = ctx._etree_obj.xpath(lexpr, namespaces=nsmap or None)
    except Exception:  # noqa: BLE001
        return None
    return res


def lxml_ids(res, nodes):
    from delb import TextNode

    by_el = {}
    by_text = {}
    for i, n in enumerate(nodes):
        if isinstance(n, TextNode):
            h = n._tail_sequence_head
            by_text[(id(h._bound_to), h._position)] = i
        else:
            by_el[id(n._etree_obj)] = i
    ids = set()
    for x in res:
        if hasattr(x, "tag"):
            ids.add(by_el.get(id(x), -1))
        else:
            ids.add(by_text.get((id(x.getparent()), 2 if x.is_tail else 1), -1))
    return ids


def gen_case(rng):
    c = _gen_case(rng)
    # a caller binding of `svg` (the name of one of the library's common namespaces) is used by the expression
    if c["ns"] and any(p == "svg" for p, _ in c["ns"]) and rng.random() < 0.8:
        c["expr"] = c["expr"].replace("p:", "svg:") if "p:" in c["expr"] else "svg:a/" + c["expr"].lstrip("/")
    return c


def _gen_case(rng):
    xml = gendoc(rng)
    return {"xml": xml, "ctx": 0 if rng.random() < 0.5 else rng.randrange(0, 1000), "expr": genexpr(rng) if rng.random() < 0.8 else gen_safe(rng),
            "ns": [["p", "u"]] if rng.random() < 0.5 else rng.choice([[["p", "u"], ["svg", "u"]], [["svg", "u"]]]) if rng.random() < 0.3 else rng.choice([None, None, [["p", "u"], ["", "d"]], [["p", "u"], ["", "d"]], [["q", "u"]], [], [],
                                                                 [["p", "u"], ["", "u"]],
                                                                 # the name of one of the library's common namespaces, bound by the caller
                                                                 [["p", "u"], ["svg", "u"]], [["p", "u"], ["svg", "u"]], [["svg", "u"]]])}


def gen_safe(rng):
    steps = []
    for _ in range(rng.randrange(1, 4)):
        ax = rng.choice(["child", "descendant", "descendant-or-self", "parent", "ancestor", "ancestor-or-self",
                         "following-sibling", "preceding-sibling", "self", "", "", ""])
        nt = rng.choice(["a", "b", "c", "*", "p:a", "p:*", "svg:a", "svg:*", "text()", "comment()", "processing-instruction()", "node()"])
        s = (ax + "::" if ax else "") + nt
        for _ in range(rng.choice([0, 1, 1, 2])):
            p = rng.choice([str(rng.randrange(1, 4)), "position()=last()", "@x", '@x="1"', "position()<3", 'contains(@y,"b")',
                            "not(position()=1)", "not(position()=last())", "not(position()<2) and position()<4",
                            '@x and position()=1', '@x="1" or @y', "@x or @y and position()=1", "@x and @y or position()>1",
                            '@y="b" or @x and @y', "position()=1 and @x or @y"])
            s += "[%s]" % p
        steps.append(s)
    seps = [rng.choice(["/", "/", "/", "//"]) for _ in steps[1:]]
    lead = rng.choice(["", "", "", ".//"]) if False else ""
    return lead + steps[0] + "".join(a + b for a, b in zip(seps, steps[1:]))


def results_after_edits(run: Run, stream, n):
    """results objects are snapshots of nodes, document order belongs to the live tree: in_document_order() called again
    on the same object after the tree was rearranged reflects the new order (and the node set is the same)"""
    from delb import Document, TagNode, altered_default_filters

    rng = run.rng
    for _ in range(n):
        xml = re.sub(r' xmlns(:p)?="[^"]*"', "", gendoc(rng)).replace("p:", "")
        case = {"xml": xml, "what": "in_document_order after edits"}
        d = Document(xml)
        res = d.root.xpath(rng.choice(["//*", "//a | //b", "//b/* | //a", "//*[@x]"]))
        first = list(res.in_document_order())
        with altered_default_filters():
            tags = [t for t in d.root.iterate_descendants() if isinstance(t, TagNode)]
            movable = [t for t in tags if t.parent is not None and len(t.parent) > 1]
            if not movable:
                continue
            t = rng.choice(movable)
            parent = t.parent
            t.detach()
            parent.insert_children(rng.choice([0, len(parent)]), t)
            order = {id(x): i for i, x in enumerate([d.root] + list(d.root.iterate_descendants()))}
        again = list(res.in_document_order())
        run.case(stream, case, len(first) > 1)
        run.count("resorted results", min(len(first), 6))
        want = sorted(first, key=lambda x: order[id(x)])
        if [id(x) for x in again] != [id(x) for x in want]:
            run.violation(stream, case, {"why": "in_document_order() of a results object is not the document order after the tree was rearranged",
                                         "moved": str(t)[:60]})


def known(case, doc_xml, out):
    expr = case["expr"]
    if re.search(r'@[\w:]+\s*!=', expr) or re.search(r'@[\w:]+\s*=\s*(""|\'\')', expr):
        return "attribute-compare-absent"
    if out.get("err") in ("AssertionError", "AttributeError", "TypeError"):
        return "evaluation-raises-" + out["err"]
    return None


def judge(run: Run, stream, case, nodes, ctx, out, model):
    run.case(stream, case, bool(out.get("ok")))
    run.count("outcome", "nonempty" if out.get("ok") else ("empty" if "ok" in out else out["err"]))
    if "ok" in out and len(set(out["ok"])) != len(out["ok"]):
        run.violation(stream, case, {"why": "a node occurs twice in the result", "result": out["ok"]})
    ref = lxml_reference(case, nodes, ctx) if "ok" in out else None
    if ref is not None:
        run.count("reference", "compared")
        want = lxml_ids(ref, nodes)
        if set(out["ok"]) != want:
            run.violation(stream, case, {"why": "node set differs from the XPath 1.0 reference engine", "delb": sorted(out["ok"]), "lxml": sorted(want)})
        if "sorted" in out and out["sorted"] != sorted(out["ok"]):
            run.violation(stream, case, {"why": "in_document_order is not document order", "sorted": out["sorted"]})
    if model is None:
        return
    if "driver_error" in model:
        raise common.ToolFailure(str(model))
    if "nsmap_err" in model:
        if out.get("err") != "ValueError":
            run.mismatch(stream, case, out, model, "model rejects the prefix mapping")
        return
    if "parse" in model:
        if out.get("err") != "parse":
            run.mismatch(stream, case, out, model, "model rejects the expression")
        return
    mres = model.get("result", {})
    if "ok" in mres:
        if out.get("ok") != mres["ok"]:
            run.mismatch(stream, case, out, mres)
        elif model.get("sorted") is not None and "sorted" in out and model["sorted"] != out["sorted"]:
            run.mismatch(stream, case, out["sorted"], model["sorted"], "in_document_order differs")
    else:
        # both sides end with an error: generators are evaluated lazily in the code and eagerly in the model, so
        # which of several errors surfaces first may differ; only "error vs result" is a disagreement
        if "err" not in out:
            run.mismatch(stream, case, out, mres)


def run_cases(run: Run, cases, stream, lean_ok=True):
    rows = []
    for c in cases:
        try:
            doc, nodes, ctx, out = run_impl(c)
        except Exception as e:  # noqa: BLE001
            run.case(stream, c, False)
            run.violation(stream, c, f"case could not be built: {type(e).__name__}: {e}")
            continue
        rows.append((c, doc, nodes, ctx, out))
    reqs = [{"cmd": "xpath", "tree": ptree(nodes), "ctx": path_of(nodes, ctx), "expr": c["expr"], "decls": c["ns"]}
            for c, _, nodes, ctx, _ in rows]
    models = run_driver(reqs) if lean_ok and rows else [None] * len(rows)
    for (c, doc, nodes, ctx, out), m in zip(rows, models):
        judge(run, stream, c, nodes, ctx, out, m)


def css_cases(run: Run, stream, n):
    """CSS selectors that translate into the subset vs lxml.cssselect"""
    from delb import Document
    from cssselect import GenericTranslator

    sels = ["a", "a b", "a > b", "a, b", "*", "a[x]", 'a[x="1"]', "a b c", "a > b > c", "b, c > a", "c[y]", 'b[y="ab"]']
    for _ in range(n):
        # no namespaces at all in this stream: cssselect's translation has no notion of delb's default namespace
        xml = re.sub(r' xmlns(:p)?="[^"]*"', "", gendoc(run.rng)).replace("p:", "")
        sel = run.rng.choice(sels)
        case = {"xml": xml, "css": sel}
        run.case(stream, case, True)
        try:
            d = Document(xml)
            got = {id(n._etree_obj) for n in d.css_select(sel)}
            # reference: the cssselect translation (delb uses prefix "descendant::": matches start below the
            # context node) evaluated by lxml's XPath engine
            want = {id(e) for e in d.root._etree_obj.xpath(GenericTranslator().css_to_xpath(sel, prefix="descendant::"))}
            if got != want:
                run.violation(stream, case, {"why": "css_select differs from lxml.cssselect", "delb": len(got), "lxml": len(want)})
        except Exception as e:  # noqa: BLE001
            run.violation(stream, case, f"css_select raised {type(e).__name__}: {e}")


def corpus():
    x = "<r xmlns:p='u'><a x='1'>t<b/><!--c--><?pi d?></a><a/><p:a y='ab'><a x='2'/></p:a>tail</r>"
    ns = [["p", "u"]]
    exprs = ["a", "a[2]", "//a", "//a[@x]", "a/b", "descendant::a[position()=last()]", "p:a/a", "p:*", "*", "text()",
             "a/text()", "//comment()", "//processing-instruction()", '//processing-instruction("pi")', "a | p:a", "//a[1]",
             "/r/a[@x='1']", "ancestor-or-self::*", "following::a", "preceding::a", "a[@x and position()=1]",
             "//a[not(@x='1')]", "node()", "a/following-sibling::*", "//b/parent::a", ".//a", "a/..", "./a"]
    return [{"xml": x, "ctx": c, "expr": e, "ns": ns} for e in exprs for c in (0, 1)]


def check(run: Run, lean: dict) -> int:
    n = run.budget(2500, 60000)
    run.extra["rule"] = (
        "generated documents (namespaces, mixed content, comments, PIs, attributes) x random context node x expressions from "
        "the supported grammar (all axes, abbreviations, name/wildcard/prefixed/type tests, stacked predicates with "
        "positions, last(), attribute tests and comparisons, contains/starts-with/not, and/or, unions) x prefix maps; "
        "20% from the sub-grammar that is additionally compared with lxml's XPath engine; non-trivial = non-empty result"
    )
    ok = lean.get("driver_ok", True)
    for f in common.known_findings("C06"):
        if f.get("status") != "open":
            continue
        r = f["replay"]
        _, _, _, out = run_impl(r)
        if out.get("ok") != r["expected"]:
            print(f"KNOWN-FINDING: property=C06 {f['key']}: {f['description']}")
            run.known_hit.append(f["key"])
        else:
            run.notes.append(f"known finding {f['key']} no longer reproduces")
    run_cases(run, corpus(), "corpus", ok)
    run_cases(run, [gen_case(run.rng) for _ in range(n)], "generated", ok)
    css_cases(run, "css", n // 10)
    results_after_edits(run, "results after edits", 150)
    return run.finish(lean, LEVEL, ASSUME, search=search)


def search(run: Run):
    probe = Run(run.prop, run.tier, run.seed)
    cases = [m["case"] for m in run.mismatches if "expr" in m["case"]] + corpus()
    cases += [dict(gen_case(probe.rng), expr=gen_safe(probe.rng)) for _ in range(20000)]
    run_cases(probe, cases, "search", False)
    css_cases(probe, "search", 300)
    return [probe.violations[0]] if probe.violations else None


def replay(payload: dict) -> int:
    probe = Run("C06", "quick", 0)
    cases = [f["case"] for f in payload.get("failing", []) if "expr" in f["case"]]
    run_cases(probe, cases, "replay", False)
    print(json.dumps(probe.violations[:3], ensure_ascii=False)[:3000])
    return 1 if probe.violations else 0

"""C04 - garbage collection timing never changes what a program observes."""

from __future__ import annotations

import copy
import gc
import json
import time

import common
import edits as E
import trees
from common import Run, run_driver

LEVEL = (
    "Lean theorems (Props/C04.lean) about the model of _WrapperCache.__gc_callback__ for every cache state: the callback's "
    "refcount tests see exactly the program's references (thresholds read from the source each run); referenced nodes, "
    "documents' roots and nodes whose data/tail/appended text nodes are referenced stay cached untouched; evicted wrappers "
    "are unreferenced and leave their element with exactly the text their text nodes showed; nothing stays when nothing is "
    "referenced; a held lock makes the callback a no-op. Correspondence: before every forced collection the real cache "
    "(wrappers, chains of text nodes, references the harness holds) is handed to the compiled model and the surviving "
    "wrappers and folded element texts are compared. Property oracle on the implementation: edit histories with a random "
    "subset of nodes held, collections forced after every call or fired inside library calls (allocation threshold 1): "
    "content equals the plain-tree mirror up to coalescing of unreferenced adjacent text nodes, every held object is the "
    "object navigation returns for its position, edits through held nodes take effect, and after dropping all references "
    "the cache is empty."
)
ASSUME = [
    "when CPython runs a collection and which temporaries a library frame holds at that moment is runtime behaviour: "
    "explored (forced after every call; threshold 1 inside calls), not modelled - library frames only add references",
    "sys.getrefcount semantics of CPython 3.12 (structural reference counts listed in Model/Gc.lean are checked against "
    "the real cache in every forced collection)",
    "text nodes are targeted by edits only through held references (a program has no other way to name them after coalescing)",
]

MODES = ["forced", "forced", "auto", "none"]


class Problem(Exception):
    pass


class GCInt(int):
    """an index argument that runs a collection when the library computes or compares with it for the k-th time: this
    pins a collection between two position lookups of one call (a window that allocation thresholds rarely hit)"""

    fire_at = 0
    calls = 0

    def _hook(self):
        GCInt.calls += 1
        if GCInt.calls == GCInt.fire_at:
            gc.collect()

    def __lt__(self, other):
        self._hook()
        return int(self) < other

    def __le__(self, other):
        self._hook()
        return int(self) <= other

    def __gt__(self, other):
        self._hook()
        return int(self) > other

    def __ge__(self, other):
        self._hook()
        return int(self) >= other

    def __eq__(self, other):
        self._hook()
        return int(self) == other

    def __add__(self, other):
        self._hook()
        return int(self) + other

    def __radd__(self, other):
        self._hook()
        return other + int(self)

    def __sub__(self, other):
        self._hook()
        return int(self) - other

    def __rsub__(self, other):
        self._hook()
        return other - int(self)

    __hash__ = int.__hash__


def kids_of(obj):
    from delb import TagNode, altered_default_filters

    if not isinstance(obj, TagNode):
        return []
    with altered_default_filters():
        return list(obj.iterate_children())


def plain(obj):
    """id-less dump of one node (without children)"""
    from delb import CommentNode, ProcessingInstructionNode, TagNode, TextNode

    if isinstance(obj, TagNode):
        attrs = trees.sort_attrs([[a.namespace, a.local_name, a.value] for a in obj.attributes.values()])
        return ("t", obj.namespace, obj.local_name, attrs)
    if isinstance(obj, TextNode):
        return ("x", obj.content)
    if isinstance(obj, CommentNode):
        return ("c", obj.content)
    if isinstance(obj, ProcessingInstructionNode):
        return ("p", obj.target, obj.content)
    raise TypeError(type(obj))


def mirror_plain(n):
    if n[0] == "t":
        return ("t", n[2], n[3], trees.sort_attrs(n[4]))
    return (n[0],) + tuple(n[2:])


class GCWorld:
    def __init__(self, xml, rng, hold_p, doc_mode):
        from delb import Document

        self.rng = rng
        self.hold_p = hold_p
        self.doc = Document(xml)
        self.held = {}  # mirror id -> object (the program's references)
        self.mirror = E.Mirror([None], 0)
        self.problems = []
        # initial mirror: pre-order ids; random holds
        ids = iter(range(10**9))
        pairs = []

        def build(obj):
            i = next(ids)
            p = plain(obj)
            if p[0] == "t":
                node = ["t", i, p[1], p[2], [list(a) for a in p[3]], []]
                pairs.append((i, obj))
                for c in kids_of(obj):
                    node[5].append(build(c))
                return node
            pairs.append((i, obj))
            return [p[0], i] + list(p[1:])

        root = self.doc.root
        self.mirror.groups[0] = build(root)
        self.mirror.next = next(ids)
        for i, obj in pairs:
            if i != 0 and rng.random() < hold_p:
                self.held[i] = obj
        # how group 0 stays reachable: the document, the root, or both
        if doc_mode == "root-only":
            self.held[0] = root
            self.doc = None
        elif doc_mode == "both":
            self.held[0] = root
        del pairs, root

    # ------------------------------------------------------------ navigation
    def group_root(self, g):
        t = self.mirror.groups[g]
        rid = E.tid(t)
        if rid in self.held:
            return self.held[rid]
        if g == 0 and self.doc is not None:
            return self.doc.root
        raise common.ToolFailure(f"harness lost the root of group {g}")

    def resolve(self, nid):
        if nid in self.held:
            return self.held[nid]
        g, p = self.mirror.find(nid)
        node = self.group_root(g)
        for i in p:
            node = kids_of(node)[i]
        return node

    # ------------------------------------------------------------ alignment (the oracle)
    def align(self, mnode, obj, new_from=None, found=None):
        """compare the mirror subtree with the real one; adjacent text nodes of the mirror that were coalesced in
        the implementation are merged in the mirror too (allowed only when none of them is held)"""
        if mirror_plain(mnode)[0] != "t":
            if mirror_plain(mnode) != plain(obj):
                raise Problem(f"node {E.tid(mnode)} differs: {plain(obj)} vs plain tree {mirror_plain(mnode)}")
            self.note(mnode, obj, new_from, found)
            return
        if mirror_plain(mnode) != plain(obj):
            raise Problem(f"tag node {E.tid(mnode)} differs: {plain(obj)} vs plain tree {mirror_plain(mnode)}")
        self.note(mnode, obj, new_from, found)
        mk = mnode[5]
        ik = kids_of(obj)
        out = []
        j = 0
        for c in ik:
            pc = plain(c)
            if pc[0] == "x" and pc[1] == "" and j < len(mk) and mk[j][0] == "x" and mk[j][2] == "":
                # a text node whose content is "" may be among the children (as an empty text node) ...
                out.append(mk[j])
                self.note(mk[j], c, new_from, found)
                j += 1
                continue
            while j < len(mk) and mk[j][0] == "x" and mk[j][2] == "":
                out.append(mk[j])  # ... or not (what the library does with emptied text nodes is not C04's subject)
                j += 1
            if j >= len(mk):
                raise Problem(f"surplus child {pc} under node {E.tid(mnode)}")
            m = mk[j]
            if pc[0] == "x":
                if m[0] != "x":
                    raise Problem(f"text {pc[1]!r} where the plain tree has {mirror_plain(m)} under node {E.tid(mnode)}")
                # greedy: the implementation node covers one or more mirror text nodes
                acc, group = "", []
                while j < len(mk) and mk[j][0] == "x" and len(acc) < len(pc[1]):
                    acc += mk[j][2]
                    group.append(mk[j])
                    j += 1
                if acc != pc[1]:
                    raise Problem(f"text content differs under node {E.tid(mnode)}: {pc[1]!r} vs plain tree {[g[2] for g in group]}")
                if len(group) > 1:
                    heldin = [E.tid(g) for g in group if E.tid(g) in self.held]
                    if heldin:
                        raise Problem(f"adjacent text nodes were coalesced although text node(s) {heldin} are referenced")
                    merged = ["x", E.tid(group[0]), acc]
                    out.append(merged)
                    self.note(merged, c, new_from, found)
                else:
                    out.append(group[0])
                    self.note(group[0], c, new_from, found)
            else:
                if m[0] == "x":
                    raise Problem(f"{pc} where the plain tree has text {m[2]!r} under node {E.tid(mnode)}")
                self.align(m, c, new_from, found)
                out.append(m)
                j += 1
        while j < len(mk) and mk[j][0] == "x" and mk[j][2] == "":
            out.append(mk[j])
            j += 1
        if j != len(mk):
            raise Problem(f"missing children under node {E.tid(mnode)}: {[mirror_plain(m) for m in mk[j:]]}")
        mnode[5] = out

    def note(self, mnode, obj, new_from, found):
        nid = E.tid(mnode)
        if nid in self.held and self.held[nid] is not obj:
            raise Problem(f"navigation returns another object than the referenced one for node {nid} ({plain(obj)})")
        if found is not None and new_from is not None and nid >= new_from:
            found.append((nid, obj))

    def check_all(self, new_from=None):
        """align every group; returns [(id, obj)] of nodes with id >= new_from"""
        found = [] if new_from is not None else None
        for g, t in enumerate(self.mirror.groups):
            if t is None:
                continue
            self.align(t, self.group_root(g), new_from, found)
        # every held id must still be somewhere in the plain tree at the place navigation finds it (checked in note)
        live = self.mirror.all_ids()
        for nid in list(self.held):
            if nid not in live:
                del self.held[nid]
        return found or []

    # ------------------------------------------------------------ one edit
    def step(self, op):
        """returns False when the op was skipped"""
        from delb import altered_default_filters

        m = self.mirror
        if "create" in op:
            w = E.World.__new__(E.World)
            w.objs, w.handle = {}, {}
            nid = m.create(op["create"])
            E.World.create(w, op["create"], nid)
            self.held[nid] = w.objs[nid]
            return True
        tgt = op["target"]
        loc = m.find(tgt)
        if loc is None:
            return False
        g, p = loc
        tnode = m.node(g, p)
        if tnode[0] == "x" and tgt not in self.held:
            return False  # text nodes are edited through held references only
        ids = [tgt] + [i["node"] for i in op.get("items", []) if "node" in i]
        # nodes that become roots of their own tree must stay reachable for the program
        becomes_root = []
        if op["op"] in ("detach", "replace") and p:
            becomes_root.append(tgt)
        if op["op"] == "delitem" and tnode[0] == "t" and op["index"] < len(tnode[5]):
            becomes_root.append(E.tid(tnode[5][op["index"]]))
        w = E.World.__new__(E.World)
        w.objs, w.handle = {}, {}
        for i in set(ids + becomes_root):
            w.objs[i] = self.resolve(i)
        before_next = m.next
        pin = getattr(self, "pin", 0)
        alt, alt_ok = None, False
        if pin and "index" in op:
            # a collection before the call's first lookup coalesces the unreferenced text nodes: the index then counts
            # in the coalesced tree. Both readings of the index are legitimate outcomes
            alt = copy.deepcopy(m)
            for t in alt.groups:
                if t is not None:
                    alt.merge(t)
            try:
                alt.apply(copy.deepcopy(op))
                alt_ok = True
            except E.Rejected:
                alt_ok = False
        try:
            m.apply(copy.deepcopy(op))
        except E.Rejected:
            return False
        for i in becomes_root:
            self.held[i] = w.objs[i]
        if pin and "index" in op:
            GCInt.fire_at, GCInt.calls = pin, 0
            try:
                err, r = E.World.apply(w, dict(op, index=GCInt(op["index"])))
            finally:
                GCInt.fire_at = 0
        else:
            err, r = E.World.apply(w, op)
        del r
        w.objs.clear()
        if err is not None:
            if alt is not None and not alt_ok and err == "IndexError":
                self.mirror = alt  # out of range in the coalesced tree
                for i in becomes_root:
                    self.held.pop(i, None)
                self.check_all()
                return True
            raise Problem(f"{op['op']} raised {err}")
        # retained children of a detached node stay in the tree; moved nodes are no group roots any more: nothing to do
        try:
            found = self.check_all(new_from=before_next)
        except Problem:
            if not alt_ok:
                raise
            saved = self.mirror
            self.mirror = alt
            try:
                found = self.check_all(new_from=before_next)
            except Problem:
                self.mirror = saved
                raise
        for nid, obj in found:
            if self.rng.random() < self.hold_p:
                self.held[nid] = obj
        del found
        return True

    # ------------------------------------------------------------ the cache, for the model
    def snapshot(self):
        from delb import TagNode
        from _delb.nodes import _wrapper_cache

        held_ids = {id(o) for o in self.held.values()}
        doc_refs = 1 if self.doc is not None else 0
        els, req = [], []

        def slot(head, stored):
            app = []
            cur = head._appended_text_node
            while cur is not None:
                app.append({"refs": 1 if id(cur) in held_ids else 0, "content": cur.content})
                cur = cur._appended_text_node
            return {"head_refs": 1 if id(head) in held_ids else 0, "stored": stored or "", "appended": app}

        empty = {"head_refs": 0, "stored": "", "appended": []}
        for k, (el, node) in enumerate(tuple(_wrapper_cache.wrappers.items())):
            is_tag = isinstance(node, TagNode)
            has_doc = getattr(node, "__document__", None) is not None
            els.append(el)
            req.append({
                "elem": k, "is_tag": is_tag, "refs": 1 if id(node) in held_ids else 0,
                "doc": (doc_refs if has_doc and node.__document__ is self.doc else (0 if has_doc else None)),
                "data": slot(node._data_node, el.text) if is_tag else empty,
                "tail": slot(node._tail_node, el.tail),
            })
        del node
        return els, req


def cache_len():
    from _delb.nodes import _wrapper_cache

    return len(_wrapper_cache.wrappers)


def run_history(run: Run, stream, case, rows):
    """case: {"xml", "seed", "mode", "hold_p", "doc_mode", "length"}; deterministic given the case"""
    import random

    from _delb.nodes import _wrapper_cache

    rng = random.Random(case["seed"])
    mode = case["mode"]
    old_thr = gc.get_threshold()
    gc.collect()
    base = cache_len()
    world = None
    problem = None
    steps = 0
    try:
        if mode == "none":
            gc.disable()
        elif mode == "auto":
            gc.set_threshold(1, 1, 1)
        world = GCWorld(case["xml"], rng, case["hold_p"], case["doc_mode"])
        try:
            world.check_all()
            if "pinned" in case:
                planned = pinned_plan(world, case["pinned"])
            elif "empty" in case:
                planned = empty_content_plan(world, case["empty"])
            elif "micro" in case:
                cands = all_ops(world.mirror)
                planned = [cands[case["micro"] % len(cands)]] if cands else []
            else:
                planned = None
            for i in range(case["length"] if planned is None else len(planned)):
                op = E.gen_op(rng, world.mirror) if planned is None else planned[i]
                world.pin = case["fire"] if ("pinned" in case and i == len(planned) - 1 and i > 0) else 0
                if not world.step(op):
                    continue
                if "pinned" in case and i == len(planned) - 1:
                    # negative index access right after: the last child is the last child
                    world.pin = 0
                    root = world.group_root(0)
                    from delb import altered_default_filters
                    GCInt.fire_at, GCInt.calls = case["fire"], 0
                    try:
                        with altered_default_filters():
                            got = root[GCInt(-1)]
                    except IndexError:
                        got = None
                    finally:
                        GCInt.fire_at = 0
                    with altered_default_filters():
                        last = root.last_child
                    if got is not last:
                        raise Problem("root[-1] is not the last child with a collection inside the call")
                    del got, last, root
                steps += 1
                if mode == "forced":
                    els, req = world.snapshot()
                    gc.collect()
                    kept = [k for k, el in enumerate(els) if el in _wrapper_cache.wrappers]
                    texts = {k: [el.text or "", el.tail or ""] for k, el in enumerate(els)}
                    rows.append((case, steps, req, kept, texts))
                    del els
                    world.check_all()
        except Problem as e:
            problem = {"step": steps, "why": str(e)}
        held_n = len(world.held)
        world.held.clear()
        world.doc = None
        world = None
        gc.collect()
        left = cache_len() - base
        if problem is None and left > 0:
            problem = {"step": steps, "why": f"{left} cached node objects left after all references were dropped"}
    finally:
        gc.set_threshold(*old_thr)
        gc.enable()
        world = None
        gc.collect()
    if common.UNRAISABLE:
        msg = common.UNRAISABLE[:]
        common.UNRAISABLE.clear()
        if problem is None:
            problem = {"step": steps, "why": f"exception escaped the gc callback: {msg[0]}"}
    run.case(stream, case, steps >= 3 and case["hold_p"] > 0)
    run.count("mode", mode)
    run.count("document", case["doc_mode"])
    run.count("steps", steps)
    run.count("held fraction", case["hold_p"])
    if problem:
        run.violation(stream, case, problem)
    return problem


def suspended_iterators(run: Run, stream):
    """a partially consumed iterator that the program still holds must not keep collections from evicting what the
    program has released elsewhere (seeded C04-8: the cache lock held across a `yield`)"""
    from delb import Document, altered_default_filters

    kinds = {
        "iterate_descendants": lambda r: r.iterate_descendants(),
        "iterate_children": lambda r: r.iterate_children(),
        "iterate_following": lambda r: r[0].iterate_following() if len(r) else iter(()),
        "iterate_preceding": lambda r: r.last_descendant.iterate_preceding() if r.last_descendant is not None else iter(()),
        "iterate_following_siblings": lambda r: r[0].iterate_following_siblings() if len(r) else iter(()),
        "iterate_ancestors": lambda r: r.last_descendant.iterate_ancestors() if r.last_descendant is not None else iter(()),
        "xpath": lambda r: iter(r.xpath("//*")),
    }
    gc.collect()
    for name, make in kinds.items():
        case = {"suspended": name}
        run.case(stream, case, True)
        held_doc = Document("<r><a>t<b/>u</a><c/><!--x--><d><e/></d></r>")
        with altered_default_filters():
            it = make(held_doc.root)
            first = next(it, None)  # noqa: F841  the iterator is suspended now
        base = cache_len()
        other = Document("<o><p>q</p><p/><p><s/></p></o>")
        with altered_default_filters():
            nodes = list(other.root.iterate_descendants())
        grown = cache_len() - base
        del nodes, other
        gc.collect()
        left = cache_len() - base
        if grown > 0 and left > 0:
            run.violation(stream, case, {"why": f"{left} cached node objects of a released document left while a partially "
                                                f"consumed {name} iterator of another document is held"})
        del it, first, held_doc
        gc.collect()


def held_attributes(run: Run, stream):
    """the program keeps an Attribute object or a node's attributes mapping but not the tag node: after any collection
    reads show the node's attribute and writes reach the tree (seeded C04-9: the back-reference to the node made weak)"""
    from delb import Document, altered_default_filters

    for how in ("attribute object", "attributes mapping", "attribute from xpath"):
        case = {"held": how}
        run.case(stream, case, True)
        doc = Document('<r><x id="a" k="1"/><y><x id="b"/></y></r>')
        try:
            if how == "attribute object":
                held = doc.root[0]["id"]
            elif how == "attributes mapping":
                held = doc.root[0].attributes
            else:
                held = [n["id"] for n in doc.root.xpath("//x")]
            gc.collect()
            gc.collect()
            if how == "attribute object":
                seen = held.value
                held.value = "new"
            elif how == "attributes mapping":
                seen = held["id"].value
                held["id"] = "new"
            else:
                seen = [a.value for a in held][0]
                held[0].value = "new"
            with altered_default_filters():
                now = doc.root[0]["id"].value
            if seen != "a" or now != "new":
                run.violation(stream, case, {"why": "a held attribute does not show / write the node's attribute after a collection",
                                             "read": seen, "tree": now})
        except Exception as e:  # noqa: BLE001
            run.violation(stream, case, {"why": f"using a held attribute after a collection raised {type(e).__name__}: {e}"})
        del doc, held
        gc.collect()


def attr_scope_cases(run: Run, stream):
    """attributes given to an element before it is attached below a default namespace: what the attribute objects and
    the serialization report afterwards must not depend on whether the element's wrapper (and the attribute objects it
    caches) was evicted by a collection in between and is rebuilt on the next access"""
    from delb import Document, altered_default_filters, new_tag_node, tag

    def build(case):
        doc = Document(f"<root{case['decl']}/>")
        root = doc.root
        how, ans = case["how"], case["attr_ns"]
        key = ("x" if ans == "" else (ans, "x"))
        if how == "new_tag_node":
            b = new_tag_node("b", attributes={key: "1"}, namespace=root.namespace or None)
            root.append_children(b)
            c = b.append_children(tag("c"))[0]
        elif how == "set-then-append":
            b = new_tag_node("b", namespace=root.namespace or None)
            b.attributes[key] = "1"
            root.append_children(b)
            c = b.append_children(tag("c"))[0]
        elif how == "other-namespace-node":
            b = new_tag_node("b", attributes={key: "1"}, namespace="http://e")
            root.append_children(b)
            c = b.append_children(tag("c"))[0]
        elif how == "definition":
            b = root.append_children(tag("b", {"x": "1"}, [tag("c")]))[0]
            c = b[0]
        else:
            c = root.fetch_or_create_by_xpath("b[@x='1']/c")
        return doc, root, c

    def observe(root, c):
        with altered_default_filters():
            b = c.parent
            return {"names": [list(k) for k in b.attributes], "objects": [[a.namespace, a.local_name, a.universal_name, a.value] for a in b.attributes.values()],
                    "lookup": ("x" in b.attributes, b.attributes.get("x") is not None), "b": str(b), "root": str(root)}

    for decl in ("", " xmlns='http://d'", " xmlns:p='http://p'"):
        for how in ("new_tag_node", "set-then-append", "other-namespace-node", "definition", "fetch_or_create"):
            for ans in ("", "http://d", "http://o"):
                if how in ("definition", "fetch_or_create") and ans:
                    continue
                case = {"attr_scope": True, "decl": decl, "how": how, "attr_ns": ans}
                attr_scope_case(run, stream, case, build, observe)


def attr_scope_case(run, stream, case, build, observe):
    results = []
    for collect in (False, True):
        gc.collect()
        gc.disable()
        try:
            doc, root, c = build(case)
            if collect:
                gc.collect()
            results.append(observe(root, c))
        except Exception as e:  # noqa: BLE001
            results.append({"raised": type(e).__name__ + ": " + str(e)[:100]})
        finally:
            gc.enable()
        del doc, root, c
    run.case(stream, case, True)
    run.count("attribute scope", case["how"])
    if results[0] != results[1]:
        diff = [k for k in results[0] if results[0].get(k) != results[1].get(k)] if "raised" not in results[0] and "raised" not in results[1] else ["raised"]
        run.violation(stream, case, {"why": "what a program observes depends on whether a collection ran", "differs": diff,
                                     "without collection": {k: results[0].get(k) for k in diff}, "with collection": {k: results[1].get(k) for k in diff}})


UNRAISABLE: list = []


def install_unraisable_hook():
    """exceptions raised inside gc callbacks are 'unraisable' (printed, not propagated); they are recorded as strings
    (keeping the exception object would keep frames, and with them nodes, referenced)"""
    import sys
    import traceback

    def hook(u):
        UNRAISABLE.append("".join(traceback.format_exception_only(u.exc_type, u.exc_value)).strip() + " in " + str(getattr(u.object, "__qualname__", u.object))[:80])

    sys.unraisablehook = hook


def empty_in_chain(run: Run, stream):
    """text nodes with empty content inside a chain of adjacent text nodes: once the program has dropped its references
    and a collection has coalesced the chain, the element's text is the concatenation of what was added. (Only the state
    after the collection is examined: navigating across an empty text node in a chain is a recorded observation about the
    unchanged library, DESIGN.md section 4.)"""
    from delb import Document

    rng = run.rng
    for where in ("data", "tail"):  # the replay of the fixed finding emptied-head-text-node-loses-chain comes first
        for later in (True, False):
            empty_chain_case(run, stream, {"empty_in_chain": ["h", ""], "where": where, "set_later": later, "empty_head": True})
            empty_chain_case(run, stream, {"empty_in_chain": ["b"], "where": where, "set_later": later, "empty_head": True})
    for _ in range(40):
        parts = [rng.choice(["a", "bc", "", "", " d "]) for _ in range(rng.randint(2, 5))]
        if not parts[0]:
            parts[0] = "h"
        where = rng.choice(["data", "tail"])
        case = {"empty_in_chain": parts, "where": where, "set_later": rng.random() < 0.4, "empty_head": rng.random() < 0.35}
        empty_chain_case(run, stream, case)


def empty_chain_case(run: Run, stream, case):
    from delb import Document

    if True:
        parts, where = case["empty_in_chain"], case["where"]
        gc.collect()
        doc = Document("<r><p>x<q/>t</p></r>")
        root = doc.root
        p = root[0]
        anchor = p[0] if where == "data" else p[2]
        head_text = "x" if where == "data" else "t"
        if case["set_later"]:
            added = anchor.add_following_siblings(*[s or "tmp" for s in parts])
            for node, s in zip(added, parts):
                if not s:
                    node.content = ""
            del added, node
        else:
            anchor.add_following_siblings(*parts)
        if case["empty_head"]:
            # the text node at the head of the chain (the one lxml holds as .text / .tail) is emptied: the nodes chained
            # to it keep their content
            anchor.content = ""
            head_text = ""
        del anchor, p
        seen = len(UNRAISABLE)
        gc.collect()
        gc.collect()
        n_unraisable = len(UNRAISABLE) - seen
        x, t = (head_text, "t") if where == "data" else ("x", head_text)
        want = "<r><p>" + x + ("".join(parts) if where == "data" else "") + "<q/>" + t + ("".join(parts) if where == "tail" else "") + "</p></r>"
        got = str(root)
        if n_unraisable:
            run.violation(stream, case, {"why": "a collection ended with an exception in the wrapper cache's callback", "exception": UNRAISABLE[seen]})
        run.case(stream, case, "" in parts)
        run.count("empty text in chain", where)
        if got != want:
            run.violation(stream, case, {"why": "text is lost when a chain with an empty text node is coalesced", "got": got, "want": want})
        del root, doc
        if n_unraisable:
            # the wrapper whose callback raised is never evicted and would raise again at every later collection:
            # the cases are kept independent of each other
            from _delb.nodes import _wrapper_cache

            _wrapper_cache.wrappers.clear()


def compare_with_model(run: Run, rows):
    if not rows:
        return
    reqs = [{"cmd": "gc", "locks": 0, "cache": req} for _, _, req, _, _ in rows]
    outs = run_driver(reqs)
    for (case, step, req, kept, texts), m in zip(rows, outs):
        if "driver_error" in m:
            raise common.ToolFailure(str(m))
        run.count("cache size at collection", min(len(req), 40) // 5 * 5)
        if m["kept"] != kept:
            run.mismatch("model", case, {"step": step, "kept": kept, "cache": req}, m["kept"], "surviving wrappers differ")
            continue
        for e in m["evicted"]:
            got = texts[e["elem"]] if req[e["elem"]]["is_tag"] else ["", texts[e["elem"]][1]]  # a comment's .text is its content
            if got != [e["text"], e["tail"]]:
                run.mismatch("model", case, {"step": step, "elem": req[e["elem"]], "texts": texts[e["elem"]]}, e,
                             "folded element text differs")
                break


def pinned_plan(world, k):
    """two unreferenced text nodes next to each other (a collection may coalesce them at any time), then one index based
    call whose index argument fires a collection between the call's position lookups"""
    root = world.mirror.groups[0]
    tags = [n for n in root[5] if n[0] == "t"]
    if not tags:
        return []
    setup = {"op": "add_following", "target": E.tid(tags[0]), "items": [{"str": "s1"}, {"str": "s2"}]}
    n = len(root[5]) + 2
    DEF = {"def": ["n", [], []]}
    cands = [{"op": "insert", "target": 0, "index": i, "items": [DEF, dict(DEF), {"str": "z"}]} for i in range(n + 1)]
    cands += [{"op": "delitem", "target": 0, "index": i} for i in range(n)]
    cands += [None, None, None]  # no editing call: only the negative index access afterwards
    c = cands[k % len(cands)]
    return [setup] if c is None else [setup, c]


def empty_content_plan(world, k):
    """a text node that is held without its element is emptied (whether an empty text node stays among the children is
    not C04's subject, `align` accepts both), collections run, then it gets content again and nodes are added next to it
    through the held reference"""
    cands = []
    for p, n in E.walk(world.mirror.groups[0]):
        if n[0] != "x" or not p:
            continue
        sib = world.mirror.parent(0, p)[5]
        i = p[-1]
        if (i > 0 and sib[i - 1][0] == "x") or (i + 1 < len(sib) and sib[i + 1][0] == "x"):
            continue
        cands.append(E.tid(n))
    if not cands:
        return []
    t = cands[k % len(cands)]
    world.held[t] = world.resolve(t)
    return [{"op": "set_content", "target": t, "s": ""},
            {"op": "set_content", "target": t, "s": "N"},
            {"op": "add_following", "target": t, "items": [{"str": "R"}]},
            {"op": "add_following", "target": t, "items": [{"def": ["n", [], []]}]}]


def all_ops(mirror):
    """every single editing call applicable to the document tree (deterministic order): the multi-step methods are the
    ones a collection in the middle can disturb (they look up a position, move text, then insert)"""
    ops = []
    STR, DEF = {"str": "N"}, {"def": ["n", [], [{"str": "in"}]]}
    for p, n in E.walk(mirror.groups[0]):
        nid = E.tid(n)
        if p:
            for it in (STR, DEF):
                ops.append({"op": "add_following", "target": nid, "items": [it]})
                ops.append({"op": "add_preceding", "target": nid, "items": [it]})
                ops.append({"op": "replace", "target": nid, "items": [it]})
            ops.append({"op": "add_preceding", "target": nid, "items": [STR, DEF, STR]})
            ops.append({"op": "detach", "target": nid, "retain": False})
            if n[0] == "t":
                ops.append({"op": "detach", "target": nid, "retain": True})
        if n[0] == "t":
            ops.append({"op": "append", "target": nid, "items": [STR, DEF]})
            ops.append({"op": "merge", "target": nid})
            for i in range(len(n[5]) + 1):
                ops.append({"op": "insert", "target": nid, "index": i, "items": [DEF]})
                ops.append({"op": "insert", "target": nid, "index": i, "items": [STR, DEF]})
            for i in range(len(n[5])):
                ops.append({"op": "delitem", "target": nid, "index": i})
    return ops


MICRO_DOCS = [
    "<r><a/>t1<x><y/></x>t2<b/></r>",
    "<r>t0<x>in<y/>side</x>t2</r>",
    "<r><a/>t1<!--c-->t2<x><y/>z</x>t3<?p d?>t4</r>",
    "<r><a>1</a>2<a>3<a>4</a>5</a>6</r>",
]


def count_ops(xml):
    from delb import Document

    import random as _r
    w = GCWorld(xml, _r.Random(0), 0.0, "doc-only")
    return len(all_ops(w.mirror))


def micro_cases(rng, n, systematic_docs=()):
    """one call per case, collections fired inside the call (allocation threshold 1), few or no nodes held;
    every applicable call on `systematic_docs`, a random sample on the other documents"""
    out = []
    for xml in systematic_docs:
        for k in range(count_ops(xml)):
            out.append({"xml": xml, "seed": rng.randrange(1 << 30), "mode": "auto", "hold_p": 0.0,
                        "doc_mode": rng.choice(["doc-only", "root-only", "both"]), "length": 1, "micro": k})
    for xml in MICRO_DOCS:
        for k in range(len(xml) // 2 if systematic_docs else 6):
            for fire in (1, 2, 3, 4, 5, 6, 8):
                out.append({"xml": xml, "seed": rng.randrange(1 << 30), "mode": "none", "hold_p": 0.0, "doc_mode": "doc-only",
                            "length": 2, "pinned": rng.randrange(1 << 20) if not systematic_docs else k, "fire": fire})
    for xml in MICRO_DOCS + E.DOCS:
        for k in range(4):
            out.append({"xml": xml, "seed": rng.randrange(1 << 30), "mode": rng.choice(["forced", "auto"]), "hold_p": 0.0,
                        "doc_mode": rng.choice(["doc-only", "root-only", "both"]), "length": 5, "empty": k})
    for _ in range(n):
        out.append({"xml": rng.choice(MICRO_DOCS + E.DOCS), "seed": rng.randrange(1 << 30), "mode": "auto",
                    "hold_p": rng.choice([0.0, 0.0, 0.15, 0.3]), "doc_mode": rng.choice(["doc-only", "root-only", "both"]),
                    "length": 1, "micro": rng.randrange(1 << 20)})
    return out


def gen_case(rng):
    return {
        "xml": E.pick_doc(rng), "seed": rng.randrange(1 << 30), "mode": rng.choice(MODES),
        "hold_p": rng.choice([0.0, 0.15, 0.3, 0.3, 0.6, 1.0]), "doc_mode": rng.choice(["doc-only", "root-only", "both"]),
        "length": rng.randint(4, 16),
    }


def corpus():
    return [
        {"xml": "<r><a>data<b/>tail</a></r>", "seed": 1, "mode": "forced", "hold_p": 0.5, "doc_mode": "doc-only", "length": 8},
        {"xml": "<r>a<b/>c</r>", "seed": 2, "mode": "forced", "hold_p": 0.3, "doc_mode": "root-only", "length": 10},
        {"xml": "<r>a<b/>c</r>", "seed": 3, "mode": "auto", "hold_p": 0.3, "doc_mode": "both", "length": 10},
    ]


def check(run: Run, lean: dict) -> int:
    common.use_repo()
    install_unraisable_hook()
    n = run.budget(300, 12000)
    run.extra["rule"] = (
        "random Legal edit histories (4-16 calls) over 12 seed documents; the program holds a random subset of the nodes "
        "(fraction 0/0.15/0.3/0.6/1, incl. text nodes without their element, appended text nodes without their predecessors) "
        "and the document, the root or both; collections: forced after every call (with model comparison), fired inside "
        "library calls by allocation threshold 1, or disabled until the end; non-trivial = at least 3 calls with some node held"
    )
    ok = lean.get("driver_ok", True)
    for f in common.known_findings("C04"):
        if f.get("status") == "open":
            print(f"KNOWN-FINDING: property=C04 {f['key']}: {f['description']}")
            run.known_hit.append(f["key"])
    rows = []
    # the short special-purpose streams first: they do not depend on the time the long random streams take
    suspended_iterators(run, "suspended iterators")
    held_attributes(run, "held attributes")
    empty_in_chain(run, "empty text in a chain")
    attr_scope_cases(run, "attributes given before attaching")
    for c in corpus():
        run_history(run, "corpus", c, rows)
    for _ in range(n):
        if run.enough():
            break
        run_history(run, "generated", gen_case(run.rng), rows)
    for c in micro_cases(run.rng, n // 3, MICRO_DOCS if run.tier == "quick" else MICRO_DOCS + E.DOCS):
        if run.enough():
            break
        run_history(run, "single call, collections inside", c, rows)

    if UNRAISABLE:
        run.count("unraisable exceptions in callbacks", len(UNRAISABLE))
        if not any("callback" in str(v.get("detail", "")) for v in run.violations):
            run.violation("any", {"unraisable": UNRAISABLE[:3]}, {"why": "a garbage collection ended with an exception in a gc callback"})
    if ok:
        compare_with_model(run, rows)
    return run.finish(lean, LEVEL, ASSUME, search=search)


def search(run: Run):
    probe = Run(run.prop, run.tier, run.seed)
    cands = [m["case"] for m in run.mismatches] + corpus() + micro_cases(run.rng, 3000) + [gen_case(run.rng) for _ in range(4000)]
    suspended_iterators(probe, "search")
    if probe.violations:
        return [probe.violations[0]]
    t0 = time.time()
    for c in cands:
        p = run_history(probe, "search", c, [])
        if p:
            return [{"case": c, "detail": p}]
        if time.time() - t0 > (600 if run.tier == "quick" else 7200):
            run.notes.append("failing-input search stopped after its time budget")
            break
    return None


def replay(payload: dict) -> int:
    common.use_repo()
    bad = 0
    for f in payload.get("failing", []):
        probe = Run("C04", "quick", 0)
        if "empty_in_chain" in f["case"]:
            install_unraisable_hook()
            empty_chain_case(probe, "replay", f["case"])
            p = [v.get("detail") for v in probe.violations]
        else:
            p = run_history(probe, "replay", f["case"], [])
        print(json.dumps({"case": f["case"], "detail": p}, ensure_ascii=False))
        bad += bool(p)
    return 1 if bad else 0

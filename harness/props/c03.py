"""C03 - formatted output is whitespace-transparent for normalised documents."""

from __future__ import annotations

import json

import common
import fmt_common as F
import ser_common as S
import trees
from common import Run, run_driver
from props import c07

LEVEL = (
    "Lean theorems (Props/C03.lean) about the PrettySerializer model (width 0) and the TextWrappingSerializer model "
    "(width >= 1); correspondence: exact output string of the real serializers vs the compiled models for reduced "
    "mixed-content trees x indentation x width x alignment, from the root and from subtrees that are reduced standing "
    "alone; property oracle: Document(output, reduce_whitespace=True) equals the original tree."
)
ASSUME = [
    "tokenisation of the output string is lxml's (checked per case by re-parsing)",
    "a subtree is serialized on its own only when it is whitespace-reduced standing alone (precondition of the property)",
]

WRAP_MODEL = True  # the TextWrappingSerializer model (Model/Wrapping.lean) is served by the driver as `wrapser`


def reduced_alone(t):
    return trees.canon(c07.spec_reduce(trees.merge_text(t))) == trees.canon(trees.merge_text(t))


def gen_case(rng, widths):
    t = F.gen_reduced_tree(rng)
    cands = [p for p, s in F.subtrees(t) if reduced_alone(s)]
    path = () if rng.random() < 0.7 or not cands else rng.choice(cands)
    return {
        "tree": t, "how": rng.choice(["parsed", "parsed", "api"]), "path": list(path),
        "indent": rng.choice(["", " ", "  ", "\t", "   ", "    ", " \n" if rng.random() < 0.2 else "  ",
                                 rng.choice(["\u00a0", "\u3000", " \u00a0", "\u2003\u2003"]) if rng.random() < 0.3 else "\t"]), "align": rng.random() < 0.3, "width": rng.choice(widths),
        "decls": None if rng.random() < 0.7 else S.gen_decls(rng, S.tree_namespaces(t)),
    }


def gen_preserve_nest(rng, widths):
    """xml:space inheritance below inline elements: root > inline element(s) > xml:space="preserve" element > children
    without an own directive whose text has whitespace runs (and an xml:space="default" island now and then)"""
    XS = trees.XML_NS
    raw = lambda: rng.choice(["  if x:\n      ", "return  1 ", "\n  done ", " a  b ", "x\ty", "  "])  # noqa: E731

    def inner(depth):
        kids = []
        for _ in range(rng.randint(1, 3)):
            r = rng.random()
            if r < 0.5:
                if not kids or kids[-1][0] != "x":
                    kids.append(["x", raw()])
            elif depth < 2:
                attrs = [[XS, "space", "default"]] if rng.random() < 0.15 else []
                kids.append(["t", "", rng.choice(["kw", "b", "i"]), attrs, inner(depth + 1)])
            else:
                kids.append(["c", " c  c "])
        return kids

    pre = ["t", "", "code", [[XS, "space", "preserve"]], inner(0)]
    node = pre
    for _ in range(rng.choice([1, 1, 2])):
        left = [["x", rng.choice(["the ", "see the ", "a "])]] if rng.random() < 0.7 else []
        right = [["x", rng.choice([" sample", " x y z", " end"])]] if rng.random() < 0.7 else []
        node = ["t", "", rng.choice(["hi", "em", "q"]), [], left + [node] + right]
    root = ["t", "", "p", [], [["x", "see "], node, ["x", " here"]]]
    t = c07.spec_reduce(trees.merge_text(root))
    cands = [p for p, s in F.subtrees(t) if reduced_alone(s)]
    path = () if rng.random() < 0.7 or not cands else rng.choice(cands)
    return {"tree": t, "how": "parsed", "path": list(path), "indent": rng.choice(["", " ", "  ", "\t"]),
            "align": rng.random() < 0.2, "width": rng.choice(widths + [40, 80, 120, 200]), "decls": None, "raw": root}


def library_reduced(run: Run, stream, cases):
    """the property as it is worded: a document whose whitespace was reduced BY THE LIBRARY (not by the independent
    oracle) is serialized with format options and read back with reduction (seeded C03-8: the reduction skipping
    xml:space="default" islands below a preserving element, on which the line-fitting serializer relies)"""
    from delb import Document, FormatOptions

    for c in cases:
        if "raw" not in c:
            continue
        case = {"raw": c["raw"], "indent": c["indent"], "align": c["align"], "width": c["width"], "library_reduced": True}
        run.case(stream, case, True)
        try:
            doc = Document(trees.to_xml(c["raw"]))
            doc.reduce_whitespace()
            keep = [doc.root] + list(doc.root.iterate_descendants())  # noqa: F841
            before = trees.extract(doc.root)
            out = doc.root.serialize(format_options=FormatOptions(align_attributes=c["align"], indentation=c["indent"], width=c["width"]))
            back = reread(out)
        except Exception as e:  # noqa: BLE001
            run.violation(stream, case, {"why": f"reduce / serialize / re-read raised {type(e).__name__}: {e}"})
            continue
        if trees.canon(trees.merge_text(back)) != trees.canon(trees.merge_text(before)):
            run.violation(stream, case, {"why": "a document reduced by the library does not come back from its formatted serialization",
                                         "reduced": before, "output": out, "reread": back})


def gen_flip(rng, widths):
    """a case whose tree carries an xml:space attribute other than "preserve" somewhere: after a first serialization its
    value is set to "preserve" through the Attribute object and the (still reduced) tree is serialized again"""
    for _ in range(20):
        c = gen_case(rng, widths)
        if c["path"]:
            continue
        cands = [p for p, s in F.subtrees(c["tree"])
                 if any(a[0] == trees.XML_NS and a[1] == "space" and a[2] != "preserve" for a in s[3])]
        if cands:
            c["flip"] = list(rng.choice(cands))
            c["how"] = "parsed"
            return c
    return None


def reread(out):
    from delb import Document, ParserOptions

    return trees.extract(Document(out, ParserOptions(reduce_whitespace=True)).root)


def has_empty_text(t):
    if t[0] == "x":
        return t[1] == ""
    return t[0] == "t" and any(has_empty_text(k) for k in t[4])


def known_region(case):
    """open findings: line breaks inside the indentation string with a line width (`newline-in-indentation`);
    non-XML whitespace as indentation with attribute alignment (`non-xml-whitespace-indentation-in-tags`)"""
    if case["width"] >= 1 and any(c in case["indent"] for c in "\n\r"):
        return True
    # open finding `non-xml-whitespace-indentation-in-tags`
    return bool(case["align"]) and any(c not in " \t\n\r" for c in case["indent"])


def judge(run: Run, stream, case, before, res, model):
    if known_region(case) and stream != "known":
        return
    run.case(stream, case, trees.size(before) > 3)
    run.count("indent", repr(case["indent"]))
    run.count("width", case["width"])
    run.count("from", "root" if not case.get("path") else "subtree")
    if "err" in res:
        if res["err"] == "ValueError" and model is not None and "nsmap_err" in model:
            return
        run.violation(stream, case, {"why": f"serialize raised {res['err']}: {res['msg']}"})
        return
    expect = trees.canon(trees.merge_text(before))
    try:
        got = trees.canon(reread(res["out"]))
    except Exception as e:  # noqa: BLE001
        run.violation(stream, case, {"why": f"output does not parse: {type(e).__name__}: {e}", "output": res["out"]})
        return
    if got != expect:
        run.violation(stream, case, {"why": "re-read and reduced tree differs from the original", "output": res["out"],
                                     "reread": got, "expected": expect})
    if model is None:
        return
    if "driver_error" in model:
        raise common.ToolFailure(str(model))
    if "result" not in model or "out" not in model["result"]:
        run.mismatch(stream, case, res, model, "model raises")
        return
    if res["out"] != model["result"]["out"]:
        run.mismatch(stream, case, res["out"], model["result"]["out"], "output string differs")
    if model.get("rereduced") is None or trees.canon(model["rereduced"]) != trees.canon(model["reduced_input"]):
        run.mismatch(stream, case, model.get("rereduced"), model.get("reduced_input"),
                     "Lean: reduce(build(model output)) != reduce(input)")


def run_cases(run: Run, cases, stream, lean_ok=True):
    rows = []
    for c in cases:
        try:
            before, res = F.serialize_impl(c)
        except Exception as e:  # noqa: BLE001
            run.case(stream, c, False)
            run.violation(stream, c, f"building the case raised {type(e).__name__}: {e}")
            continue
        if has_empty_text(before):
            continue
        rows.append((c, before, res))
    idx = [i for i, (c, _, _) in enumerate(rows) if c["width"] == 0 or WRAP_MODEL]
    reqs = [F.lean_request("pretty" if rows[i][0]["width"] == 0 else "wrapser", rows[i][0], rows[i][1]) for i in idx]
    outs = run_driver(reqs) if lean_ok and reqs else []
    models = [None] * len(rows)
    if outs:
        for i, m in zip(idx, outs):
            models[i] = m
    for (c, before, res), m in zip(rows, models):
        judge(run, stream, c, before, res, m)


def corpus():
    base = {"how": "parsed", "path": [], "decls": None, "align": False}
    t1 = ["t", "", "p", [], [["x", "Hold "], ["t", "", "hi", [], [["x", "the"]]], ["x", " thieves!"]]]
    t2 = ["t", "", "root", [], [["t", "", "a", [], []], ["x", "A "], ["t", "", "b", [[trees.XML_NS, "space", "preserve"]],
          [["t", "", "x", [], []], ["t", "", "y", [], []]]], ["x", " Z"], ["t", "", "c", [], []]]]
    t3 = ["t", "", "text", [], [["t", "", "hi", [], [["x", "Hello"]]], ["x", " "], ["t", "", "hi", [], [["x", "world!"]]]]]
    out = []
    for t in (t1, t2, t3):
        for ind in ("", "  ", "\t"):
            out.append(dict(base, tree=t, indent=ind, width=0))
    return out


def check(run: Run, lean: dict) -> int:
    n = run.budget(1500, 40000)
    widths = WIDTHS
    run.extra["rule"] = (
        "generated mixed-content trees reduced by the independent oracle (nested inline elements, comments/PIs between text, "
        "xml:space preserve/default/invalid, long words, empty elements) x indentation {'',' ','  ','\\t'} x width x "
        "align_attributes, from the root or from a subtree that is reduced standing alone; non-trivial = more than 3 nodes"
    )
    ok = lean.get("driver_ok", True)
    for f in common.known_findings("C03"):
        if f.get("status") != "open":
            continue
        probe = Run(run.prop, run.tier, run.seed)
        before, res = F.serialize_impl(f["replay"])
        judge(probe, "known", f["replay"], before, res, None)
        if probe.violations:
            print(f"KNOWN-FINDING: property=C03 {f['key']}: {f['description']}")
            run.known_hit.append(f["key"])
        else:
            run.notes.append(f"known finding {f['key']} no longer reproduces")
    run_cases(run, corpus(), "corpus", ok)
    run_cases(run, [gen_case(run.rng, widths) for _ in range(n)], "generated", ok)
    nests = [gen_preserve_nest(run.rng, widths) for _ in range(n // 5)]
    run_cases(run, nests, "preserve-nesting", ok)
    library_reduced(run, "reduced by the library", nests)
    run_cases(run, [c for c in (gen_flip(run.rng, widths) for _ in range(n // 10)) if c], "directive changed between two serializations", ok)
    return run.finish(lean, LEVEL, ASSUME, search=search)


WIDTHS = [0, 0, 1, 2, 3, 5, 7, 8, 10, 11, 13, 17, 20, 30, 79]


def search(run: Run):
    probe = Run(run.prop, run.tier, run.seed)
    cands = ([m["case"] for m in run.mismatches] + corpus() + [gen_preserve_nest(run.rng, WIDTHS) for _ in range(3000)]
             + [gen_case(run.rng, WIDTHS) for _ in range(15000)])
    for c in cands:
        try:
            before, res = F.serialize_impl(c)
        except Exception as e:  # noqa: BLE001
            return [{"case": c, "detail": f"raised {type(e).__name__}: {e}"}]
        if has_empty_text(before):
            continue
        judge(probe, "search", c, before, res, None)
        if probe.violations:
            return [probe.violations[0]]
    return None


def replay(payload: dict) -> int:
    bad = 0
    for f in payload.get("failing", []):
        probe = Run("C03", "quick", 0)
        before, res = F.serialize_impl(f["case"])
        judge(probe, "replay", f["case"], before, res, None)
        print(json.dumps({"case": f["case"], "result": res, "violations": probe.violations}, ensure_ascii=False))
        bad += bool(probe.violations)
    return 1 if bad else 0

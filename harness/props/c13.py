"""C13 - namespace declarations in output are consistent and honour the caller."""

from __future__ import annotations

import json

import common
import ser_common as S
import trees
from common import Run, run_driver

LEVEL = (
    "Lean theorems (Props/C13.lean) about the model of Serializer._collect_prefixes / __redeclare_empty_prefix / "
    "_new_namespace_declaration / serialize_root: for every tree, every accepted caller mapping and every iteration order "
    "of the per-node namespace sets, the fold never hits one of the code's assertions and its result maps every namespace of "
    "the tree to exactly one prefix, different namespaces to different prefixes, the empty namespace only to the empty prefix, "
    "a caller-bound namespace to the caller's prefix, and `xml`/`xmlns` are never declared. Correspondence: the namespace "
    "declarations and prefixes found in the real output (via lxml) vs the model's prefix map; invalid mappings rejected alike."
)
ASSUME = [
    "fewer than 65536 generated prefixes are needed (the code raises NotImplementedError beyond)",
    "iteration order of Python sets is arbitrary: the observed order is passed to the model, theorems cover all orders",
]


def declared_map(out):
    from lxml import etree

    root = etree.fromstring(out.encode("utf-8"))
    return root, {(k or ""): v for k, v in root.nsmap.items()}


def oracle(case, before, out):
    """C13 stated on the implementation's output; returns a reason or None."""
    from lxml import etree

    end = S.first_tag_end(out)
    if S.XMLNS_RE.search(out[end:]):
        return "a namespace declaration sits below the outermost element"
    root, nsmap = declared_map(out)
    if "xmlns:xml=" in out or "xmlns:xmlns=" in out:
        return "the xml/xmlns prefix is declared"
    tree_nss = S.tree_namespaces(before)
    by_ns = {}
    for p, ns in nsmap.items():
        if p == "xml":
            continue
        by_ns.setdefault(ns, []).append(p)
    for ns in tree_nss:
        if ns in ("", trees.XML_NS):
            continue
        if len(by_ns.get(ns, [])) != 1:
            return f"namespace {ns!r} is bound to {by_ns.get(ns, [])} (exactly one prefix expected)"
    if "" in tree_nss and "" in nsmap:
        return "names in no namespace would fall under a default namespace declaration"
    decls = S.decls_from_items(case["decls"]) or {}
    elements = {}
    for el in root.iter():
        if isinstance(el.tag, str):
            q = etree.QName(el.tag)
            elements.setdefault(q.namespace or "", set()).add(el.prefix or "")
    for p, ns in decls.items():
        if p in (None, "") or ns not in tree_nss:
            continue
        if nsmap.get(p) != ns:
            return f"caller's prefix {p!r} for {ns!r} is not honoured (declared: {by_ns.get(ns)})"
        if ns in elements and elements[ns] != {p}:
            return f"elements in {ns!r} use prefixes {elements[ns]} instead of {p!r}"
    return None


def model_map(prefixes):
    m = {}
    for ns, p in prefixes:
        if ns == "" or p[:-1] in ("xml", "xmlns"):
            continue
        m[p[:-1] if p else ""] = ns
    return m


def judge(run: Run, stream, case, before, after, res, model):
    nss = S.tree_namespaces(before)
    run.case(stream, case, len([n for n in nss if n]) >= 2)
    run.count("namespaces in tree", len(nss))
    run.count("decls", "none" if case["decls"] is None else len(case["decls"]))
    run.count("format", "none" if not case.get("fmt") else f"width={case['fmt']['width']} align={case['fmt']['align']}")
    run.count("root xml:space", next((a[2] for a in before[3] if a[0] == trees.XML_NS and a[1] == "space"), "absent"))
    if "err" in res:
        if res["err"] == "ValueError" and (model is None or "nsmap_err" in model):
            run.count("outcome", "mapping rejected")
            return
        run.count("outcome", res["err"])
        run.violation(stream, case, {"why": f"serialize raised {res['err']}: {res['msg']}", "tree": before})
        return
    run.count("outcome", "ok")
    out = res["out"]
    try:
        why = oracle(case, before, out)
    except Exception as e:  # noqa: BLE001
        why = f"output not namespace-well-formed: {type(e).__name__}: {e}"
    if why:
        run.violation(stream, case, {"why": why, "output": out})
    if model is None:
        return
    if "driver_error" in model:
        raise common.ToolFailure(str(model))
    if "nsmap_err" in model:
        run.mismatch(stream, case, res, model, "model rejects the mapping, implementation accepts it")
        return
    if "prefixes" not in model or "out" not in model.get("result", {}):
        run.mismatch(stream, case, res, model.get("result"), "model raises, implementation does not")
        return
    try:
        _, nsmap = declared_map(out)
    except Exception:  # noqa: BLE001  not namespace-well-formed: already reported by the oracle above
        return
    nsmap.pop("xml", None)
    if nsmap != model_map(model["prefixes"]):
        run.mismatch(stream, case, nsmap, model_map(model["prefixes"]), "declared prefixes differ")


def gen_case(rng):
    """the shared serialization case; "in every serialization" includes the formatted ones, so 40 % of the cases carry
    format options (the declarations and prefixes must be the same) and some roots an xml:space attribute"""
    c = S.gen_case(rng)
    if rng.random() < 0.4:
        c["fmt"] = {"align": rng.random() < 0.4, "indent": rng.choice(["", "  ", "\t"]), "width": rng.choice([0, 0, 20, 60, 200])}
    if rng.random() < 0.3:
        # "in every serialization": also of a node below the root (seeded C13-8: the declarations of a subtree that fits
        # one line dropped by the line-fitting sub-serializer)
        c["subtree"] = rng.randrange(1000)
    if rng.random() < 0.2:
        value = rng.choice(["preserve", "preserve", "default"])
        if c["how"] == "api":
            t = c["tree"]
            if not any(a[0] == trees.XML_NS for a in t[3]):
                t[3].append([trees.XML_NS, "space", value])
        elif "xml:space=" not in c["xml"]:
            i = S.first_tag_end(c["xml"])
            j = i - 2 if c["xml"][i - 2] == "/" else i - 1
            c["xml"] = c["xml"][:j] + f' xml:space="{value}"' + c["xml"][j:]
    return c


def run_cases(run: Run, cases, stream, lean_ok=True):
    rows = []
    for c in cases:
        try:
            before, after, res = S.run_impl(c)
        except Exception as e:  # noqa: BLE001
            run.case(stream, c, False)
            run.violation(stream, c, f"building the case raised {type(e).__name__}: {e}")
            continue
        rows.append((c, before, after, res))
    models = run_driver([S.lean_request(c, b) for c, b, _, _ in rows]) if lean_ok and rows else [None] * len(rows)
    for (c, before, after, res), m in zip(rows, models):
        judge(run, stream, c, before, after, res, m)


def corpus():
    t2 = ["t", "urn:a", "r", [["urn:c", "k", "v"]], [["t", "urn:b", "e", [], [["t", "", "n", [["urn:d", "z", "1"]], []]]]]]
    return [
        {"how": "api", "tree": ["t", "urn:a", "r", [], [["t", "urn:b", "e", [], []]]], "decls": [["ns0", "urn:b"]]},
        {"how": "api", "tree": t2, "decls": [["ns1", "urn:b"], ["ns0", "urn:q"]]},
        {"how": "api", "tree": t2, "decls": [["ns0", "urn:d"], ["ns1", "urn:c"], ["ns2", "urn:zz"]]},
        {"how": "api", "tree": t2, "decls": [[None, "urn:b"]]},
        {"how": "api", "tree": t2, "decls": [["", "urn:a"], ["p", "urn:b"]]},
        {"how": "api", "tree": t2, "decls": [[None, "urn:a"], ["", "urn:b"]]},       # rejected: default twice
        {"how": "api", "tree": t2, "decls": [["xml", "urn:a"]]},                      # rejected: global prefix
        {"how": "api", "tree": t2, "decls": [["p", trees.XML_NS]]},                   # rejected: global namespace
        {"how": "parsed", "xml": "<r xmlns='d1'><b xmlns='d2'/></r>", "decls": None},
        {"how": "parsed", "xml": "<r><b xmlns='d'/></r>", "decls": None},
        {"how": "parsed", "xml": "<r><ignored:d xmlns:ignored='d'/></r>", "decls": [["x", "d"]]},
        {"how": "parsed", "xml": "<root xmlns='https://foo.org'><node/></root>", "decls": [["foo", "https://foo.org"]]},
        {"how": "parsed", "xml": "<r xml:id='a' xmlns:svg='http://www.w3.org/2000/svg'><svg:g xml:lang='en'/></r>", "decls": None},
    ]


def check(run: Run, lean: dict) -> int:
    n = run.budget(1500, 40000)
    run.extra["rule"] = (
        "generated trees with namespaced and un-namespaced elements and attributes mixed at any depth x caller mappings "
        "(none, empty, default, prefixes, prefixes that collide with generated ns0/ns1/ns2, common-namespace prefixes, "
        "invalid mappings); non-trivial = at least two non-empty namespaces in the tree"
    )
    ok = lean.get("driver_ok", True)
    for f in common.known_findings("C13"):
        if f.get("status") == "open":
            print(f"KNOWN-FINDING: property=C13 {f['key']}: {f['description']}")
            run.known_hit.append(f["key"])
    run_cases(run, corpus(), "corpus", ok)
    run_cases(run, [gen_case(run.rng) for _ in range(n)], "generated", ok)
    return run.finish(lean, LEVEL, ASSUME, search=search)


def search(run: Run):
    probe = Run(run.prop, run.tier, run.seed)
    cands = [m["case"] for m in run.mismatches] + corpus() + [gen_case(run.rng) for _ in range(15000)]
    for c in cands:
        try:
            before, after, res = S.run_impl(c)
        except Exception as e:  # noqa: BLE001
            return [{"case": c, "detail": f"raised {type(e).__name__}: {e}"}]
        judge(probe, "search", c, before, after, res, None)
        if probe.violations:
            return [probe.violations[0]]
    return None


def replay(payload: dict) -> int:
    bad = 0
    for f in payload.get("failing", []):
        probe = Run("C13", "quick", 0)
        before, after, res = S.run_impl(f["case"])
        judge(probe, "replay", f["case"], before, after, res, None)
        print(json.dumps({"case": f["case"], "result": res, "violations": probe.violations}, ensure_ascii=False))
        bad += bool(probe.violations)
    return 1 if bad else 0

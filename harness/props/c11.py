"""C11 - attributes behave as a mapping keyed by namespace and local name."""

from __future__ import annotations

import json

import common
from common import Run, run_driver

LEVEL = (
    "Lean theorems (Props/C11.lean) about the model of TagAttributes/Attribute over lxml's store (Clark keys, the in-scope "
    "default namespace, the cache of Attribute objects per store key): for every operation sequence, iteration, length, "
    "membership and lookup equal those of a dictionary keyed by canonical (namespace, name); the three accessor forms of one "
    "attribute reach the same entry; in every reachable state (invariant ViewsOk, preserved by every operation) an attached "
    "attribute object shows and writes the dictionary value of its name, is kept by assignments, is detached with its last "
    "value by a removal through any spelling or by being superseded, and a rename moves the dictionary entry while the "
    "object stays live; equality of two collections is equality of the dictionaries of reported names. Correspondence: "
    "operation sequences through the mapping, through node subscripts and through held Attribute objects on nine element "
    "contexts vs the compiled model after every step, pairs of contexts compared with == in both orders, comparisons with "
    "plain dicts; property oracle: a plain dict plus a record per held Attribute object, checked after every step."
)
ASSUME = [
    "lxml's _Attrib keeps insertion order and Clark keys; the element is not re-parented during a sequence (C01/C10 finding)",
    "storeOk: no key of the wrapped lxml mapping carries the default namespace in scope in Clark form - true for elements "
    "built through delb and for parsed elements unless an attribute is written with a prefix bound to the same URI as the "
    "default namespace (there the library violates the property: fixed corpus case prefixed-attribute-in-default-namespace)",
]

CONTEXTS = [
    {"name": "no namespace", "xml": '<e a="1" b="2"/>', "node_ns": "", "default_ns": ""},
    {"name": "prefixed element", "xml": '<p:e xmlns:p="urn:u" a="1" p:b="2"/>', "node_ns": "urn:u", "default_ns": ""},
    {"name": "default namespace", "xml": '<e xmlns="urn:u" a="1" b="2"/>', "node_ns": "urn:u", "default_ns": "urn:u"},
    {"name": "foreign attributes", "xml": '<e xmlns:q="urn:q" q:a="1" a="3" q:b="2"/>', "node_ns": "", "default_ns": ""},
    {"name": "undeclared default", "xml": '<r xmlns="urn:u"><e xmlns="" a="1"/></r>', "node_ns": "", "default_ns": "", "child": True},
    # created through the API and detached nodes
    {"name": "created plain", "how": "created", "attrs": [["", "a", "1"], ["", "b", "2"]], "ns": None, "node_ns": "", "default_ns": ""},
    {"name": "created namespaced", "how": "created", "attrs": [["urn:u", "a", "1"], ["urn:q", "b", "2"]], "ns": "urn:u",
     "node_ns": "urn:u", "default_ns": ""},
    {"name": "detached prefixed", "xml": '<r xmlns:p="urn:u"><p:e a="1" p:b="2"/></r>', "node_ns": "urn:u", "default_ns": "",
     "child": True, "detach": True},
    {"name": "detached default namespace", "xml": '<r xmlns="urn:u"><e a="1" b="2"/></r>', "node_ns": "urn:u", "default_ns": "urn:u",
     "child": True, "detach": True},
]

# elements on which the library violates the property (each belongs to one finding key of known_findings.json; not
# part of the random streams): here lxml keeps the key `{urn:u}a` although urn:u is the default namespace in scope
DEFECT_CONTEXTS = [
    {"name": "prefix bound to the default namespace", "xml": '<e xmlns="urn:u" xmlns:p="urn:u" p:a="1" b="2"/>',
     "node_ns": "urn:u", "default_ns": "urn:u", "finding": "prefixed-attribute-in-default-namespace"},
]


def make_node(ctx):
    """the element of a context; returns (keep-alive, node)"""
    from delb import Document, new_tag_node

    if ctx.get("how") == "created":
        node = new_tag_node("e", {(a[0], a[1]) if a[0] else a[1]: a[2] for a in ctx["attrs"]}, namespace=ctx["ns"])
        keep = node
    else:
        keep = Document(ctx["xml"])
        node = keep.root[0] if ctx.get("child") else keep.root
        if ctx.get("detach"):
            node = node.detach()
    if node.namespace != ctx["node_ns"] or (node._etree_obj.nsmap.get(None) or "") != ctx["default_ns"]:
        raise common.ToolFailure(f"context {ctx['name']} is not what its description says")
    # the region of finding prefixed-attribute-in-default-namespace is entered by its own fixed case only
    in_region = any(k.startswith("{%s}" % ctx["default_ns"]) for k in node._etree_obj.attrib) if ctx["default_ns"] else False
    if in_region != bool(ctx.get("finding")):
        raise common.ToolFailure(f"context {ctx['name']}: a Clark key carries the default namespace (or the defect context does not)")
    return keep, node


NAMES = ["a", "b", "c", "a", "b", "c", "x-y", "a.b", "_n1"]
NSS = ["", "urn:u", "urn:q"]
VALUES = ["x", "y", "", "z z", "1", " ", "v" * 60, "𝔘é", "a{b}c"]


def gen_accessor(rng, ctx):
    n = rng.choice(NAMES)
    r = rng.random()
    if r < 0.35:
        return ["local", n]
    ns = rng.choice(NSS)
    if r < 0.6 and (ns or rng.random() < 0.5):
        # also the Clark notation of a name in no namespace, "{}name" (seeded C11-9)
        return ["clark", ns, n]
    return ["pair", ns, n]


def gen_op(rng, ctx):
    r = rng.random()
    acc = gen_accessor(rng, ctx)
    via = "node" if rng.random() < 0.3 else "mapping"
    if r < 0.16:
        return {"op": "set", "acc": acc, "value": rng.choice(VALUES), "via": via}
    if r < 0.25:
        return {"op": "del", "acc": acc, "via": via}
    if r < 0.41:
        return {"op": "get", "acc": acc, "via": via}
    if r < 0.48:
        return {"op": "pop", "acc": acc}
    if r < 0.53:
        return {"op": "contains", "acc": acc, "via": via}
    if r < 0.57:
        return {"op": "getvalue", "acc": acc}
    if r < 0.61:
        return {"op": "iter"}
    if r < 0.64:
        return {"op": "len"}
    if r < 0.68:
        items = [[gen_accessor(rng, ctx), rng.choice(VALUES)] for _ in range(rng.randint(0, 3))]
        return {"op": "update", "items": items}
    if r < 0.70:
        return {"op": "popitem"}
    if r < 0.71:
        return {"op": "clear"}
    if r < 0.74:
        return {"op": "setdefault", "acc": acc, "value": rng.choice(VALUES)}
    if r < 0.77:
        return {"op": "set_view", "acc": acc, "pick": rng.random()}
    if r < 0.81:
        return {"op": "eq_mapping", "form": rng.choice(["tuples", "clark", "canonical", "changed", "missing", "extra"]),
                "pick": rng.random()}
    if r < 0.85:
        return {"op": "view_value", "pick": rng.random()}
    if r < 0.87:
        return {"op": "view_name", "pick": rng.random()}
    if r < 0.92:
        return {"op": "view_set", "pick": rng.random(), "value": rng.choice(["v1", "v2"])}
    if r < 0.985:
        return {"op": "view_rename", "pick": rng.random(), "ns": rng.choice(NSS), "name": rng.choice(NAMES),
                "by": rng.choice(["key", "parts"])}
    # a rename that the attribute store refuses (not an XML name): an exception, and nothing has changed (seeded C11-8)
    return {"op": "view_bad_rename", "pick": rng.random(), "part": "local_name", "to": rng.choice(["not a name", "a b", "1<2", "x y"])}


def gen_ops(rng, ctx, length):
    return [gen_op(rng, ctx) for _ in range(length)]


def to_accessor(acc):
    if acc[0] == "local":
        return acc[1]
    if acc[0] == "clark":
        return "{%s}%s" % (acc[1], acc[2])
    return (acc[1], acc[2])


def canon(ctx, q):
    return ("", q[1]) if q[0] == ctx["default_ns"] else tuple(q)


def reported(ctx, q):
    """the name iteration yields for a canonical name"""
    return (q[0] or ctx["default_ns"], q[1])


def resolve(ctx, acc):
    if acc[0] == "local":
        return (ctx["node_ns"], acc[1])
    return (acc[1], acc[2])


def node_dict(ctx, node):
    """what the element itself carries (through lxml, not through delb), keyed by canonical names"""
    from lxml import etree

    out = {}
    for k, v in node._etree_obj.attrib.items():
        q = etree.QName(k)
        out[canon(ctx, (q.namespace or "", q.localname))] = v
    return out


def mapping_items(ctx, spec, form, pick):
    """a plain dict (as a list of [accessor, value]) to compare the collection with, and what `==` has to say"""
    names = list(spec)
    if form == "tuples":
        items = [[["pair", *reported(ctx, q)], spec[q]] for q in names]
    elif form == "canonical":
        items = [[["pair", *q], spec[q]] for q in names]
    elif form == "clark":
        # `universal_name`: a name in no namespace is a bare local name
        items = [[(["clark", *reported(ctx, q)] if reported(ctx, q)[0] else ["local", q[1]]), spec[q]] for q in names]
    else:
        items = [[["pair", *reported(ctx, q)], spec[q]] for q in names]
        if form == "changed" and items:
            items[int(pick * len(items)) % len(items)][1] += "!"
        elif form == "missing" and items:
            del items[int(pick * len(items)) % len(items)]
        elif form == "extra":
            items.append([["pair", "urn:none", "zz"], "1"])
    return items


class Oracle:
    """the dictionary of the property statement and one record per held Attribute object"""

    def __init__(self, ctx, node):
        self.ctx = ctx
        self.spec = node_dict(ctx, node)
        self.held = []  # per view index: {"live": bool, "key": canonical name, "last": value}

    def key(self, acc):
        return canon(self.ctx, resolve(self.ctx, acc))

    def obtained(self, i, key, live):
        if self.held[i] is None:
            self.held[i] = {"live": live, "key": key, "last": self.spec.get(key)}
            return None
        h = self.held[i]
        if not (h["live"] and h["key"] == key):
            return "lookup returned an attribute object that was removed or belongs to another attribute"
        return None

    def assign(self, key, value):
        self.spec[key] = value
        for h in self.held:
            if h and h["live"] and h["key"] == key:
                h["last"] = value

    def remove(self, key):
        value = self.spec.pop(key)
        for h in self.held:
            if h and h["live"] and h["key"] == key:
                h["live"], h["last"] = False, value


def run_impl(ctx, ops, other=None):
    """returns per-op results (canonical JSON), the ops with view indexes and generated payloads resolved, property
    problems and the final dictionaries; `other` is (ctx, node) of a second collection for `eq`"""
    d, node = make_node(ctx)
    A = node.attributes
    orc = Oracle(ctx, node)
    spec = orc.spec
    views = []
    results, resolved, problems = [], [], []
    obj_ids = {}

    def view_id(obj):
        if id(obj) not in obj_ids:
            obj_ids[id(obj)] = len(views)
            views.append(obj)
            orc.held.append(None)
        return obj_ids[id(obj)]

    def fetched(obj, key, op, live=True):
        i = view_id(obj)
        why = orc.obtained(i, key, live)
        if why:
            problems.append({"why": why, "op": op, "view": i})
        return i

    def check_state(op):
        """after every step: the element carries the dictionary; every held object behaves as the statement says"""
        real = node_dict(ctx, node)
        if real != spec:
            problems.append({"why": "the node's attributes differ from the dictionary", "op": op,
                             "node": sorted(real.items()), "dict": sorted(spec.items())})
        for i, (v, h) in enumerate(zip(views, orc.held)):
            if h is None:
                continue
            try:
                value = v.value
            except Exception as e:  # noqa: BLE001
                problems.append({"why": f"a held attribute object lost its value ({type(e).__name__})", "op": op, "view": i})
                continue
            if h["live"]:
                if h["key"] not in spec:
                    # only after a reported violation (two live objects for one attribute)
                    if not problems:
                        raise common.ToolFailure("oracle: live object without dictionary entry")
                    continue
                if value != spec[h["key"]]:
                    problems.append({"why": "a held attribute object does not show the current value of its attribute",
                                     "op": op, "view": i, "value": value, "dict": spec[h["key"]]})
                if canon(ctx, (v.namespace, v.local_name)) != h["key"]:
                    problems.append({"why": "a held attribute object reports another name than its attribute has",
                                     "op": op, "view": i, "name": [v.namespace, v.local_name], "dict": list(h["key"])})
                # it is *the* object of the attribute, under every spelling (nothing is created by these lookups then)
                for spelling in {h["key"], reported(ctx, h["key"])}:
                    if spelling not in A or A[spelling] is not v:
                        problems.append({"why": "a held attribute object is not the live object of its attribute any more",
                                         "op": op, "view": i, "spelling": list(spelling)})
            elif value != h["last"]:
                problems.append({"why": "a removed attribute object did not keep its last value", "op": op, "view": i,
                                 "value": value, "last": h["last"]})

    for op in ops:
        o = {kk: vv for kk, vv in op.items() if kk != "pick"}
        k = op["op"]
        target = node if op.get("via") == "node" else A
        res = None
        skip_model = False
        try:
            if k == "view_bad_rename":
                # not part of the model: the call must raise and leave everything as it was (check_state compares)
                if views:
                    i = int(op["pick"] * len(views)) % len(views)
                    v, h = views[i], orc.held[i]
                    if h is not None and h["live"]:
                        before_names = sorted(map(tuple, A))
                        try:
                            setattr(v, op["part"], op["to"])
                            raised = None
                        except Exception as e:  # noqa: BLE001
                            raised = type(e).__name__
                        if raised is not None and sorted(map(tuple, A)) != before_names:
                            problems.append({"why": f"a rename refused with {raised} changed the attributes", "op": o,
                                             "before": before_names, "after": sorted(map(tuple, A))})
                        if raised is None:
                            raise common.ToolFailure(f"the attribute store accepted the name {op['to']!r}: the generator must offer names that are refused")
                        check_state(o)
                results.append(None)
                resolved.append(None)
                continue
            if k in ("view_value", "view_name", "view_set", "view_rename", "set_view"):
                if not views:
                    results.append(None)
                    resolved.append(None)
                    continue
                i = int(op["pick"] * len(views)) % len(views)
                o["view"] = i
                v, h = views[i], orc.held[i]
                if h is None:  # an object that a violating call returned
                    results.append(None)
                    resolved.append(None)
                    continue
            if k == "set":
                target[to_accessor(op["acc"])] = op["value"]
                orc.assign(orc.key(op["acc"]), op["value"])
                res = "ok"
            elif k == "set_view":
                # assigning an attribute object assigns its value
                A[to_accessor(op["acc"])] = v
                orc.assign(orc.key(op["acc"]), spec[h["key"]] if h["live"] else h["last"])
                res = "ok"
            elif k == "update":
                arg = {}
                for acc, value in op["items"]:
                    arg[to_accessor(acc)] = value
                o["items"] = [[acc, arg[to_accessor(acc)]] for n, (acc, _) in enumerate(op["items"])
                              if to_accessor(acc) not in [to_accessor(a) for a, _ in op["items"][:n]]]
                A.update(arg)
                for acc, value in o["items"]:
                    orc.assign(orc.key(acc), value)
                res = "ok"
            elif k == "del":
                key = orc.key(op["acc"])
                try:
                    del target[to_accessor(op["acc"])]
                    res = "ok"
                    if key not in spec:
                        problems.append({"why": "deleting a missing attribute did not raise", "op": op})
                    else:
                        orc.remove(key)
                except KeyError:
                    res = "KeyError"
                    if key in spec:
                        problems.append({"why": "deleting an existing attribute raised KeyError", "op": op})
            elif k in ("get", "pop"):
                key = orc.key(op["acc"])
                try:
                    v = target[to_accessor(op["acc"])] if k == "get" else A.pop(to_accessor(op["acc"]))
                    if key not in spec:
                        problems.append({"why": f"{k} of a missing attribute returned a value", "op": op})
                        res = {"view": view_id(v)}
                    else:
                        if v.value != spec[key]:
                            problems.append({"why": f"{k} returned a wrong value", "op": op, "value": v.value, "dict": spec[key]})
                        res = {"view": fetched(v, key, op)}
                        if k == "pop":
                            orc.remove(key)
                except KeyError:
                    res = "KeyError"
                    if key in spec:
                        problems.append({"why": f"{k} of an existing attribute raised KeyError", "op": op})
            elif k == "popitem":
                try:
                    name, v = A.popitem()
                    key = canon(ctx, name)
                    if key not in spec:
                        problems.append({"why": "popitem returned a name that is not in the dictionary", "op": op, "name": list(name)})
                        res = {"name": list(name), "view": view_id(v)}
                    else:
                        if v.value != spec[key]:
                            problems.append({"why": "popitem returned a wrong value", "op": op, "value": v.value, "dict": spec[key]})
                        res = {"name": list(name), "view": fetched(v, key, op)}
                        orc.remove(key)
                except KeyError:
                    res = "KeyError"
                    if spec:
                        problems.append({"why": "popitem raised KeyError on a non-empty collection", "op": op})
            elif k == "clear":
                A.clear()
                for key in list(spec):
                    orc.remove(key)
                res = "ok"
            elif k == "setdefault":
                key = orc.key(op["acc"])
                v = A.setdefault(to_accessor(op["acc"]), op["value"])
                if key in spec:
                    if isinstance(v, str):
                        problems.append({"why": "setdefault of an existing attribute returned the default", "op": op})
                        res = {"value": v}
                    else:
                        res = {"view": fetched(v, key, op)}
                else:
                    if v != op["value"] or not isinstance(v, str):
                        problems.append({"why": "setdefault of a missing attribute did not return the default", "op": op})
                    orc.assign(key, op["value"])
                    res = {"value": str(v)}
            elif k == "contains":
                res = to_accessor(op["acc"]) in target
                if res != (orc.key(op["acc"]) in spec):
                    problems.append({"why": "membership differs from the dictionary", "op": op})
            elif k == "getvalue":
                v = A.get(to_accessor(op["acc"]))
                res = None if v is None else {"value": v.value}
                want = spec.get(orc.key(op["acc"]))
                if (None if v is None else v.value) != want:
                    problems.append({"why": "lookup differs from the dictionary", "op": op, "dict": want})
            elif k == "iter":
                res = [list(q) for q in A]
                if sorted(canon(ctx, q) for q in A) != sorted(spec) or len(set(map(tuple, res))) != len(res):
                    problems.append({"why": "iteration differs from the dictionary", "iter": res, "dict": sorted(spec)})
                if any(tuple(q) != reported(ctx, canon(ctx, q)) for q in res):
                    problems.append({"why": "iteration yields a name in another form than (default namespace or given, name)", "iter": res})
            elif k == "len":
                res = len(A)
                if res != len(spec):
                    problems.append({"why": "length differs from the dictionary", "len": res, "dict": len(spec)})
            elif k == "eq_mapping":
                o["items"] = mapping_items(ctx, spec, op["form"], op["pick"])
                arg = {to_accessor(acc): value for acc, value in o["items"]}
                if len(arg) != len(o["items"]):
                    raise common.ToolFailure("generated mapping has colliding keys")
                res = A == arg
                want = len(arg) == len(spec) and all(spec.get(orc.key(acc)) == value for acc, value in o["items"])
                if res != want or (arg != A) == res:
                    problems.append({"why": "comparison with a plain mapping differs from comparing the dictionaries",
                                     "op": o, "result": res, "dict": sorted(spec.items())})
            elif k == "eq":
                octx, onode, ospec, _ = other
                B = onode.attributes
                res = [A == B, B == A]
                want = ({reported(ctx, q): x for q, x in spec.items()} == {reported(octx, q): x for q, x in ospec.items()})
                if res != [want, want] or (A != B) == want:
                    problems.append({"why": "equality of two collections differs from equality of their dictionaries",
                                     "result": res, "dict": sorted(spec.items()), "other": sorted(ospec.items()),
                                     "other_ctx": octx["name"]})
            elif k == "view_value":
                try:
                    res = {"value": v.value}
                except KeyError:
                    res = "KeyError"  # reported by check_state
            elif k == "view_name":
                res = [v.namespace, v.local_name]
                if v.universal_name != ("{%s}%s" % tuple(res) if res[0] else res[1]):
                    problems.append({"why": "universal_name is not the Clark notation of namespace and local name", "op": o})
            elif k == "view_set":
                v.value = op["value"]
                res = "ok"
                if h["live"]:
                    orc.assign(h["key"], op["value"])
                else:
                    h["last"] = op["value"]
            elif k == "view_rename":
                new = canon(ctx, (op["ns"], op["name"]))
                # renaming an attribute object that was removed from its node is outside the property (the library
                # answers with an AssertionError or does nothing, depending on which setter is reached): the call is
                # made, it must not change anything (check_state), and it is not compared with the model (false alarm
                # of a thorough-tier run: model "ok" vs implementation AssertionError)
                skip_model = not h["live"]
                try:
                    if op.get("by", "key") == "key":
                        v._set_new_key(op["ns"], op["name"])
                    else:
                        # the public setters; two steps (an intermediate name) unless only one part changes
                        if v.namespace != op["ns"] and v.local_name != op["name"]:
                            o["by"] = "key"
                            v._set_new_key(op["ns"], op["name"])
                        elif v.namespace != op["ns"]:
                            v.namespace = op["ns"]
                        else:
                            v.local_name = op["name"]
                    res = "ok"
                    if h["live"] and new != h["key"]:
                        value = spec[h["key"]]
                        if new in spec:
                            orc.remove(new)  # superseded: its objects keep their last value
                        old = h["key"]
                        h["key"] = new
                        del spec[old]
                        spec[new] = value
                    elif not h["live"] and (v.namespace, v.local_name) != (op["ns"], op["name"]):
                        problems.append({"why": "renaming a removed attribute object did something", "op": o})
                except AssertionError:
                    # renaming an attribute object that was removed from its node is outside the property
                    res = "KeyError"
                    if h["live"]:
                        problems.append({"why": "renaming through a held attribute object raised AssertionError", "op": o})
                except KeyError:
                    res = "KeyError"
                    problems.append({"why": "renaming through a held attribute object raised KeyError", "op": o})
            else:
                raise ValueError(k)
        except common.ToolFailure:
            raise
        except Exception as e:  # noqa: BLE001
            res = f"EXC {type(e).__name__}"
            problems.append({"why": f"operation raised {type(e).__name__}: {e}", "op": op})
        check_state(o)
        results.append(None if skip_model else res)
        resolved.append(None if skip_model else o)
    # final state: the mapping equals the dictionary (through the public interface)
    try:
        final = {canon(ctx, q): A[q].value for q in A}
    except KeyError as e:
        final = {}
        problems.append({"why": f"reading the mapping through the names it iterates raised KeyError {e}"})
    if final != spec:
        problems.append({"why": "final mapping differs from the dictionary", "mapping": sorted(final.items()), "dict": sorted(spec.items())})
    return results, resolved, problems, sorted([k[0], k[1], v] for k, v in final.items()), (ctx, node, spec, d)


def open_findings():
    return {f["key"]: f for f in common.known_findings("C11") if f.get("status") == "open"}


def gen_case(rng):
    ctx = rng.choice(CONTEXTS)
    return {"ctx": ctx["name"], "ops": gen_ops(rng, ctx, rng.randint(4, 14))}


def no_eq_ops(ops):
    return [o for o in ops if o["op"] != "eq"]


def gen_eq_case(rng):
    """two collections after a few operations each, compared in both orders; the second history is often the first one
    (on another element context) or a slight variation, so that equal and almost equal collections are common"""
    c1, c2 = rng.choice(CONTEXTS), rng.choice(CONTEXTS)
    ops1 = gen_ops(rng, c1, rng.randint(0, 6))
    r = rng.random()
    if r < 0.45:
        ops2 = [dict(o) for o in ops1]
    elif r < 0.75:
        ops2 = [dict(o) for o in ops1]
        ops2.insert(rng.randint(0, len(ops2)), gen_op(rng, c2))
    else:
        ops2 = gen_ops(rng, c2, rng.randint(0, 6))
    if rng.random() < 0.5:
        # bring both to the same names first
        same = [{"op": "update", "items": [[["pair", ns, n], "1"] for ns, n in rng.sample([(a, b) for a in NSS for b in NAMES], 3)]}]
        if rng.random() < 0.5:
            same.insert(0, {"op": "clear"})
        ops1, ops2 = same + ops1, [dict(o) for o in same] + ops2
    return {"ctx": c1["name"], "ops": ops1 + [{"op": "eq"}], "other": {"ctx": c2["name"], "ops": ops2}}


def ctx_named(name):
    return next(x for x in CONTEXTS + DEFECT_CONTEXTS if x["name"] == name)


def defect_cases():
    """one fixed case per recorded finding that needs its own element (the `replay` of its known_findings.json entry)"""
    return [
        {"ctx": "prefix bound to the default namespace", "finding": "prefixed-attribute-in-default-namespace",
         "ops": [{"op": "iter"}, {"op": "len"}, {"op": "contains", "acc": ["pair", "urn:u", "a"]},
                 {"op": "getvalue", "acc": ["clark", "urn:u", "a"]}, {"op": "get", "acc": ["pair", "urn:u", "a"]}]},
    ]


def initial_store(ctx):
    from lxml import etree

    d, node = make_node(ctx)
    init = []
    for k, v in node._etree_obj.attrib.items():
        q = etree.QName(k)
        init.append([q.namespace, q.localname, v])
    return init


def run_cases(run: Run, cases, stream, lean_ok=True):
    rows = []
    for c in cases:
        ctx = ctx_named(c["ctx"])
        other = oresults = oresolved = None
        if c.get("other"):
            octx = ctx_named(c["other"]["ctx"])
            oresults, oresolved, oproblems, _, other = run_impl(octx, no_eq_ops(c["other"]["ops"]))
            for pr in oproblems:
                run.violation(stream, c, dict(pr, side="other"))
        results, resolved, problems, final, _ = run_impl(ctx, c["ops"] if other else no_eq_ops(c["ops"]), other)
        run.case(stream, c, any(o and o["op"].startswith("view") for o in resolved) or bool(other))
        run.count("context", c["ctx"])
        for o in resolved:
            if o:
                run.count("op", o["op"] + (" (node subscript)" if o.get("via") == "node" else ""))
        for r, o in zip(results, resolved):
            if o and o["op"] == "eq":
                run.count("collections compared", "equal" if r == [True, True] else "different" if r == [False, False] else str(r))
            if o and o["op"] == "eq_mapping":
                run.count("plain mapping compared", f"{o['form']}: {r}")
        if c.get("finding") and problems and c["finding"] in open_findings():
            # an open finding masks exactly its own fixed case
            if c["finding"] not in run.known_hit:
                f = open_findings()[c["finding"]]
                print(f"KNOWN-FINDING: property=C11 {f['key']}: {f['description']}")
                run.known_hit.append(c["finding"])
            run.count("known finding hit", c["finding"])
        else:
            if c.get("finding") and not problems:
                run.notes.append(f"finding {c['finding']} no longer reproduces")
            for pr in problems:
                run.violation(stream, c, pr)
        rows.append((c, ctx, results, resolved, final, oresults, oresolved))
    if not (lean_ok and rows):
        return
    reqs = []
    for c, ctx, results, resolved, final, oresults, oresolved in rows:
        req = {"cmd": "attrs", "node_ns": ctx["node_ns"], "default_ns": ctx["default_ns"], "init": initial_store(ctx),
               "ops": [o for o in resolved if o]}
        if oresolved is not None:
            octx = ctx_named(c["other"]["ctx"])
            req["other"] = {"node_ns": octx["node_ns"], "default_ns": octx["default_ns"], "init": initial_store(octx),
                            "ops": [o for o in oresolved if o]}
        reqs.append(req)
    for (c, ctx, results, resolved, final, oresults, oresolved), m in zip(rows, run_driver(reqs)):
        if "driver_error" in m:
            raise common.ToolFailure(str(m))
        got = [r for r, o in zip(results, resolved) if o]
        want = m["results"]
        # view ids: both sides number views in order of first appearance *as objects*; the model numbers them at creation.
        if normalise(got) != normalise(want):
            run.mismatch(stream, c, got, want)
        elif c.get("finding"):
            continue  # the element cannot be read through the names it iterates: results are compared, dictionaries are not
        elif sorted(m["dict"]) != final:
            run.mismatch(stream, c, final, m["dict"], "final dictionary differs")
        elif sorted(m["reported"]) != sorted([*reported(ctx, (ns, n)), v] for ns, n, v in final):
            run.mismatch(stream, c, final, m["reported"], "dictionary of reported names differs")
        elif oresolved is not None:
            ogot = [r for r, o in zip(oresults, oresolved) if o]
            if normalise(ogot) != normalise(m["other_results"]):
                run.mismatch(stream, c, ogot, m["other_results"], "second collection: impl != model")


def normalise(results):
    """view ids are only compared for *identity structure*: first-appearance renumbering"""
    seen = {}
    out = []
    for r in results:
        if isinstance(r, dict) and "view" in r:
            out.append(dict(r, view=seen.setdefault(r["view"], len(seen))))
        else:
            out.append(r)
    return out


def supersede_cases(rng, n):
    """an attribute whose object is held is superseded by renaming another held object onto its name - for every
    context, with values drawn from the whole pool (the empty value included), through either spelling of the name"""
    out = []
    for _ in range(n):
        ctx = rng.choice(CONTEXTS)
        va, vb = rng.choice(VALUES), rng.choice(VALUES)
        acc_a = rng.choice([["local", "a"], ["pair", ctx["node_ns"], "a"]])
        ops = [{"op": "set", "acc": acc_a, "value": va}, {"op": "set", "acc": ["local", "b"], "value": vb},
               {"op": "get", "acc": acc_a}, {"op": "get", "acc": ["local", "b"]},
               {"op": "view_value", "pick": 0.0}, {"op": "view_value", "pick": 0.5},
               {"op": "view_rename", "pick": 0.5, "ns": rng.choice([ctx["node_ns"], ctx["node_ns"], ""]), "name": "a",
                "by": rng.choice(["key", "parts"])},
               {"op": "view_value", "pick": 0.0}, {"op": "view_value", "pick": 0.5}, {"op": "iter"}, {"op": "getvalue", "acc": acc_a},
               {"op": "view_set", "pick": 0.0, "value": "w"}, {"op": "getvalue", "acc": acc_a}, {"op": "view_value", "pick": 0.5},
               {"op": "get", "acc": acc_a}, {"op": "len"}]
        out.append({"ctx": ctx["name"], "ops": ops})
    return out


def corpus():
    get_a = {"op": "get", "acc": ["local", "a"]}
    value0 = {"op": "view_value", "pick": 0.0}
    cases = [
        # the former findings stale-attribute-view and rename-to-alias-deletes
        {"ctx": "default namespace", "ops": [get_a, {"op": "pop", "acc": ["pair", "", "a"]}, value0]},
        {"ctx": "no namespace", "ops": [get_a, {"op": "set", "acc": ["local", "a"], "value": "x"}, value0,
                                        {"op": "del", "acc": ["local", "a"]}, value0]},
        {"ctx": "no namespace", "ops": [get_a, {"op": "view_rename", "pick": 0.0, "ns": "urn:q", "name": "c", "by": "key"},
                                        {"op": "iter"}, value0, {"op": "del", "acc": ["pair", "urn:q", "c"]}, value0]},
        {"ctx": "default namespace", "ops": [get_a, {"op": "view_rename", "pick": 0.0, "ns": "", "name": "a", "by": "key"},
                                             {"op": "contains", "acc": ["local", "a"]}, value0,
                                             {"op": "get", "acc": ["pair", "", "a"]}, {"op": "get", "acc": ["clark", "urn:u", "a"]}]},
        # a rename supersedes an attribute whose object is held
        {"ctx": "no namespace", "ops": [get_a, {"op": "get", "acc": ["local", "b"]},
                                        {"op": "view_rename", "pick": 0.0, "ns": "", "name": "b", "by": "parts"},
                                        value0, {"op": "view_value", "pick": 0.5}, {"op": "iter"}, {"op": "get", "acc": ["local", "b"]}]},
        # node subscripts, update, popitem, clear, setdefault
        {"ctx": "prefixed element", "ops": [{"op": "get", "acc": ["pair", "", "a"], "via": "node"},
                                            {"op": "set", "acc": ["local", "b"], "value": "x", "via": "node"},
                                            {"op": "update", "items": [[["pair", "", "a"], "y"], [["clark", "urn:q", "c"], "z z"]]},
                                            value0, {"op": "popitem"}, {"op": "setdefault", "acc": ["local", "c"], "value": "x"},
                                            {"op": "del", "acc": ["local", "b"], "via": "node"}, {"op": "clear"}, value0, {"op": "len"}]},
        {"ctx": "default namespace", "ops": [{"op": "eq_mapping", "form": f, "pick": 0.0}
                                             for f in ("tuples", "clark", "canonical", "changed", "missing", "extra")]},
        {"ctx": "prefixed element", "ops": [{"op": "eq_mapping", "form": f, "pick": 0.6}
                                            for f in ("tuples", "clark", "canonical", "changed", "missing", "extra")]},
    ]
    # equality of collections of elements with different namespaces in scope
    for a, b in (("no namespace", "created plain"), ("no namespace", "default namespace"), ("default namespace", "detached default namespace"),
                 ("prefixed element", "detached prefixed"), ("no namespace", "undeclared default"), ("foreign attributes", "no namespace")):
        cases.append({"ctx": a, "ops": [{"op": "eq"}], "other": {"ctx": b, "ops": []}})
        same = [{"op": "clear"}, {"op": "update", "items": [[["pair", "", "a"], "1"], [["pair", "urn:u", "b"], "2"]]}]
        cases.append({"ctx": a, "ops": same + [{"op": "eq"}], "other": {"ctx": b, "ops": same}})
    return cases


def check(run: Run, lean: dict) -> int:
    n = run.budget(1500, 40000)
    run.extra["rule"] = (
        "9 element contexts (no namespace; prefixed element; default namespace; foreign-namespace attributes; xmlns='' under a "
        "default; created plain / namespaced; detached prefixed / default-namespace) x sequences of 4-14 operations over a "
        "3x3 key alphabet through all accessor forms (local name, Clark, pair), on the mapping and as node subscripts: set, "
        "del, get, pop, in, get(), iteration, len, update, popitem, clear, setdefault, assignment of an Attribute object, "
        "comparison with plain dicts (by reported tuples, Clark names, canonical tuples, one value changed, one key missing, "
        "one extra), and value/name/set/rename through previously fetched Attribute objects; results compared with the model after "
        "every step, the dictionary oracle and the record of every held object checked after every step; second stream: "
        "pairs of contexts after 0-8 operations each, compared with == and != in both orders against equality of the "
        "dictionaries of reported names; non-trivial = sequence uses a held Attribute object or compares two collections"
    )
    ok = lean.get("driver_ok", True)
    fixed = [{"ctx": f["replay"]["ctx"], "ops": f["replay"]["ops"]} for f in common.known_findings("C11")
             if f.get("status") == "fixed" and "ops" in f.get("replay", {})]
    run_cases(run, corpus() + fixed + defect_cases(), "corpus", ok)
    run_cases(run, [gen_case(run.rng) for _ in range(n)], "generated", ok)
    run_cases(run, supersede_cases(run.rng, n // 5), "superseding rename", ok)
    run_cases(run, [gen_eq_case(run.rng) for _ in range(n // 3)], "equality", ok)
    return run.finish(lean, LEVEL, ASSUME, search=search)


def search(run: Run):
    probe = Run(run.prop, run.tier, run.seed)
    cases = ([m["case"] for m in run.mismatches] + corpus() + defect_cases() + [gen_case(probe.rng) for _ in range(20000)]
             + [gen_eq_case(probe.rng) for _ in range(5000)])
    run_cases(probe, cases, "search", False)
    return [probe.violations[0]] if probe.violations else None


def replay(payload: dict) -> int:
    probe = Run("C11", "quick", 0)
    run_cases(probe, [f["case"] for f in payload.get("failing", [])], "replay", False)
    print(json.dumps(probe.violations[:3], ensure_ascii=False)[:2000])
    return 1 if probe.violations else 0

"""C11 - attributes behave as a mapping keyed by namespace and local name."""

from __future__ import annotations

import json

import common
from common import Run, run_driver

LEVEL = (
    "Lean theorems (Props/C11.lean) about the model of TagAttributes/Attribute over lxml's store (Clark keys, the in-scope "
    "default namespace, the per-qualified-name view cache): for every operation sequence, iteration, length, membership and "
    "lookup equal those of a dictionary keyed by canonical (namespace, name); the three accessor forms of one attribute reach "
    "the same entry; a cached view's value is the dictionary value while attached and its last value after removal through "
    "the same qualified name. The unchanged code does not keep *every* earlier view informed (recorded findings), so the "
    "view part is partial. Correspondence: operation sequences through the mapping, through node subscripts and through held "
    "Attribute objects on five element contexts vs the compiled model after every step; property oracle: a plain dict."
)
ASSUME = [
    "lxml's _Attrib keeps insertion order and Clark keys; the element is not re-parented during a sequence (C01/C10 finding)",
]

CONTEXTS = [
    {"name": "no namespace", "xml": '<e a="1" b="2"/>', "node_ns": "", "default_ns": ""},
    {"name": "prefixed element", "xml": '<p:e xmlns:p="urn:u" a="1" p:b="2"/>', "node_ns": "urn:u", "default_ns": ""},
    {"name": "default namespace", "xml": '<e xmlns="urn:u" a="1" b="2"/>', "node_ns": "urn:u", "default_ns": "urn:u"},
    {"name": "foreign attributes", "xml": '<e xmlns:q="urn:q" q:a="1" a="3" q:b="2"/>', "node_ns": "", "default_ns": ""},
    {"name": "undeclared default", "xml": '<r xmlns="urn:u"><e xmlns="" a="1"/></r>', "node_ns": "", "default_ns": "", "child": True},
    # created through the API and detached nodes
    {"name": "created plain", "how": "created", "attrs": [["", "a", "1"], ["", "b", "2"]], "ns": None, "node_ns": "", "default_ns": ""},
    {"name": "created namespaced", "how": "created", "attrs": [["urn:u", "a", "1"], ["urn:q", "b", "2"]], "ns": "urn:u",
     "node_ns": "urn:u", "default_ns": ""},
    {"name": "detached prefixed", "xml": '<r xmlns:p="urn:u"><p:e a="1" p:b="2"/></r>', "node_ns": "urn:u", "default_ns": "",
     "child": True, "detach": True},
    {"name": "detached default namespace", "xml": '<r xmlns="urn:u"><e a="1" b="2"/></r>', "node_ns": "urn:u", "default_ns": "urn:u",
     "child": True, "detach": True},
]


def make_node(ctx):
    """the element of a context; returns (keep-alive, node)"""
    from delb import Document, new_tag_node

    if ctx.get("how") == "created":
        node = new_tag_node("e", {(a[0], a[1]) if a[0] else a[1]: a[2] for a in ctx["attrs"]}, namespace=ctx["ns"])
        keep = node
    else:
        keep = Document(ctx["xml"])
        node = keep.root[0] if ctx.get("child") else keep.root
        if ctx.get("detach"):
            node = node.detach()
    if node.namespace != ctx["node_ns"] or (node._etree_obj.nsmap.get(None) or "") != ctx["default_ns"]:
        raise common.ToolFailure(f"context {ctx['name']} is not what its description says")
    return keep, node
NAMES = ["a", "b", "c"]
NSS = ["", "urn:u", "urn:q"]


def gen_accessor(rng, ctx):
    n = rng.choice(NAMES)
    r = rng.random()
    if r < 0.35:
        return ["local", n]
    ns = rng.choice(NSS)
    if r < 0.6 and ns:
        return ["clark", ns, n]
    return ["pair", ns, n]


def gen_ops(rng, ctx, length):
    ops = []
    views = 0
    for _ in range(length):
        r = rng.random()
        acc = gen_accessor(rng, ctx)
        if r < 0.22:
            ops.append({"op": "set", "acc": acc, "value": rng.choice(["x", "y", "", "z z"])})
        elif r < 0.32:
            ops.append({"op": "del", "acc": acc})
        elif r < 0.5:
            ops.append({"op": "get", "acc": acc})
        elif r < 0.58:
            ops.append({"op": "pop", "acc": acc})
        elif r < 0.66:
            ops.append({"op": "contains", "acc": acc})
        elif r < 0.72:
            ops.append({"op": "getvalue", "acc": acc})
        elif r < 0.78:
            ops.append({"op": "iter"})
        elif r < 0.82:
            ops.append({"op": "len"})
        elif r < 0.9:
            ops.append({"op": "view_value", "pick": rng.random()})
        elif r < 0.95:
            ops.append({"op": "view_set", "pick": rng.random(), "value": rng.choice(["v1", "v2"])})
        else:
            ops.append({"op": "view_rename", "pick": rng.random(), "ns": rng.choice(NSS), "name": rng.choice(NAMES)})
    return ops


def to_accessor(acc):
    if acc[0] == "local":
        return acc[1]
    if acc[0] == "clark":
        return "{%s}%s" % (acc[1], acc[2])
    return (acc[1], acc[2])


def canon(ctx, q):
    return ("", q[1]) if q[0] == ctx["default_ns"] else tuple(q)


def resolve(ctx, acc):
    if acc[0] == "local":
        return (ctx["node_ns"], acc[1])
    return (acc[1], acc[2])


def run_impl(ctx, ops):
    """returns per-op results (canonical JSON), the ops with view indexes resolved, and property problems"""
    d, node = make_node(ctx)
    A = node.attributes
    spec = {}
    for k, v in node._etree_obj.attrib.items():
        from lxml import etree

        q = etree.QName(k)
        spec[canon(ctx, (q.namespace or "", q.localname))] = v
    views = []        # (object, model view id)
    last = {}         # view index -> last known value, canonical key it denotes
    results, resolved, problems = [], [], []
    next_view = 0
    obj_ids = {}

    def view_id(obj):
        nonlocal next_view
        if id(obj) not in obj_ids:
            obj_ids[id(obj)] = len(views)
            views.append(obj)
        return obj_ids[id(obj)]

    for op in ops:
        o = dict(op)
        k = op["op"]
        try:
            if k == "set":
                A[to_accessor(op["acc"])] = op["value"]
                spec[canon(ctx, resolve(ctx, op["acc"]))] = op["value"]
                res = "ok"
            elif k == "del":
                key = canon(ctx, resolve(ctx, op["acc"]))
                try:
                    del A[to_accessor(op["acc"])]
                    res = "ok"
                    if key not in spec:
                        problems.append({"why": "deleting a missing attribute did not raise", "op": op})
                    spec.pop(key, None)
                except KeyError:
                    res = "KeyError"
                    if key in spec:
                        problems.append({"why": "deleting an existing attribute raised KeyError", "op": op})
            elif k in ("get", "pop"):
                key = canon(ctx, resolve(ctx, op["acc"]))
                try:
                    v = A[to_accessor(op["acc"])] if k == "get" else A.pop(to_accessor(op["acc"]))
                    res = {"view": view_id(v)}
                    if key not in spec:
                        problems.append({"why": f"{k} of a missing attribute returned a value", "op": op})
                    elif v.value != spec[key]:
                        problems.append({"why": f"{k} returned a wrong value", "op": op, "value": v.value, "dict": spec[key]})
                    if k == "pop":
                        spec.pop(key, None)
                except KeyError:
                    res = "KeyError"
                    if key in spec:
                        problems.append({"why": f"{k} of an existing attribute raised KeyError", "op": op})
            elif k == "contains":
                res = to_accessor(op["acc"]) in A
                if res != (canon(ctx, resolve(ctx, op["acc"])) in spec):
                    problems.append({"why": "membership differs from the dictionary", "op": op})
            elif k == "getvalue":
                v = A.get(to_accessor(op["acc"]))
                res = None if v is None else {"value": v.value}
                want = spec.get(canon(ctx, resolve(ctx, op["acc"])))
                if (None if v is None else v.value) != want:
                    problems.append({"why": "lookup differs from the dictionary", "op": op, "dict": want})
            elif k == "iter":
                res = [list(q) for q in A]
                if sorted(canon(ctx, q) for q in A) != sorted(spec) or len(set(map(tuple, res))) != len(res):
                    problems.append({"why": "iteration differs from the dictionary", "iter": res, "dict": sorted(spec)})
            elif k == "len":
                res = len(A)
                if res != len(spec):
                    problems.append({"why": "length differs from the dictionary", "len": res, "dict": len(spec)})
            elif k in ("view_value", "view_set", "view_rename"):
                if not views:
                    results.append(None)
                    resolved.append(None)
                    continue
                i = int(op["pick"] * len(views)) % len(views)
                o = {kk: vv for kk, vv in op.items() if kk != "pick"}
                o["view"] = i
                v = views[i]
                if k == "view_value":
                    try:
                        res = {"value": v.value}
                    except KeyError:
                        res = "KeyError"
                        problems.append({"why": "a held attribute object lost its value (KeyError)", "view": i, "stale": True})
                elif k == "view_set":
                    v.value = op["value"]
                    res = "ok"
                    if v._attributes is not None:
                        spec[canon(ctx, v._qualified_name)] = op["value"]
                elif v._attributes is None:
                    # renaming an attribute object that was removed from its node is outside the property
                    results.append(None)
                    resolved.append(None)
                    continue
                elif (canon(ctx, (op["ns"], op["name"])) == canon(ctx, v._qualified_name)
                      and (op["ns"], op["name"]) != tuple(v._qualified_name) and not op.get("replay_known")):
                    # renaming to the other spelling of the same name: recorded finding `rename-to-alias-deletes`
                    results.append(None)
                    resolved.append(None)
                    continue
                else:
                    try:
                        old = canon(ctx, v._qualified_name)
                        was_attached = v._attributes is not None
                        val = None if tuple(v._qualified_name) == (op["ns"], op["name"]) else v.value
                        v._set_new_key(op["ns"], op["name"])
                        res = "ok"
                        if was_attached and tuple(v._qualified_name) != tuple(old) or True:
                            if was_attached and val is not None:
                                new = canon(ctx, (op["ns"], op["name"]))
                                if new != old:
                                    spec.pop(old, None)
                                spec[new] = val
                    except (KeyError, AssertionError) as e:
                        res = "KeyError"
                        problems.append({"why": f"renaming through a held attribute object raised {type(e).__name__}", "view": i, "stale": True})
            else:
                raise ValueError(k)
        except Exception as e:  # noqa: BLE001
            res = f"EXC {type(e).__name__}"
            problems.append({"why": f"operation raised {type(e).__name__}: {e}", "op": op})
        results.append(res)
        resolved.append(o)
    # final state: the mapping equals the dictionary
    final = {canon(ctx, q): A[q].value for q in A}
    if final != spec:
        problems.append({"why": "final mapping differs from the dictionary", "mapping": sorted(final.items()), "dict": sorted(spec.items())})
    return results, resolved, problems, sorted([k[0], k[1], v] for k, v in final.items())


def is_known(problem):
    for f in common.known_findings("C11"):
        if f.get("status") != "open":
            continue
        if f["key"] == "stale-attribute-view" and problem.get("stale"):
            return f["key"]
    return None


def gen_case(rng):
    ctx = rng.choice(CONTEXTS)
    return {"ctx": ctx["name"], "ops": gen_ops(rng, ctx, rng.randint(4, 14))}


def run_cases(run: Run, cases, stream, lean_ok=True):
    rows = []
    for c in cases:
        ctx = next(x for x in CONTEXTS if x["name"] == c["ctx"])
        results, resolved, problems, final = run_impl(ctx, c["ops"])
        run.case(stream, c, any(o and o["op"].startswith("view") for o in resolved))
        run.count("context", c["ctx"])
        for o in resolved:
            if o:
                run.count("op", o["op"])
        for pr in problems:
            if not is_known(pr):
                run.violation(stream, c, pr)
            else:
                run.count("known finding hit", "stale-attribute-view")
        rows.append((c, ctx, results, resolved, final))
    if not (lean_ok and rows):
        return
    reqs = []
    for c, ctx, results, resolved, final in rows:
        from lxml import etree
        from delb import Document

        d, node = make_node(ctx)
        init = []
        for k, v in node._etree_obj.attrib.items():
            q = etree.QName(k)
            init.append([q.namespace, q.localname, v])
        reqs.append({"cmd": "attrs", "node_ns": ctx["node_ns"], "default_ns": ctx["default_ns"], "init": init,
                     "ops": [o for o in resolved if o]})
    for (c, ctx, results, resolved, final), m in zip(rows, run_driver(reqs)):
        if "driver_error" in m:
            raise common.ToolFailure(str(m))
        got = [r for r, o in zip(results, resolved) if o]
        want = m["results"]
        # view ids: both sides number views in order of first appearance *as objects*; the model numbers them at creation.
        if normalise(got) != normalise(want):
            run.mismatch(stream, c, got, want)
        elif sorted(m["dict"]) != final:
            run.mismatch(stream, c, final, m["dict"], "final dictionary differs")


def normalise(results):
    """view ids are only compared for *identity structure*: first-appearance renumbering"""
    seen = {}
    out = []
    for r in results:
        if isinstance(r, dict) and "view" in r:
            out.append({"view": seen.setdefault(r["view"], len(seen))})
        else:
            out.append(r)
    return out


def corpus():
    return [
        {"ctx": "default namespace", "ops": [{"op": "get", "acc": ["local", "a"]}, {"op": "pop", "acc": ["pair", "", "a"]},
                                             {"op": "view_value", "pick": 0.0}]},
        {"ctx": "no namespace", "ops": [{"op": "get", "acc": ["local", "a"]}, {"op": "set", "acc": ["local", "a"], "value": "x"},
                                        {"op": "view_value", "pick": 0.0}, {"op": "del", "acc": ["local", "a"]},
                                        {"op": "view_value", "pick": 0.0}]},
        {"ctx": "no namespace", "ops": [{"op": "get", "acc": ["local", "a"]}, {"op": "view_rename", "pick": 0.0, "ns": "urn:q", "name": "c"},
                                        {"op": "iter"}, {"op": "view_value", "pick": 0.0}, {"op": "del", "acc": ["pair", "urn:q", "c"]},
                                        {"op": "view_value", "pick": 0.0}]},
    ]


def check(run: Run, lean: dict) -> int:
    n = 1500 if run.tier == "quick" else 40000
    run.extra["rule"] = (
        "5 element contexts (no namespace; prefixed element; default namespace; foreign-namespace attributes; xmlns='' under a "
        "default) x sequences of 4-14 operations over a 3x3 key alphabet through all accessor forms (local name, Clark, pair): "
        "set, del, get, pop, in, get(), iteration, len, and value/set/rename through previously fetched Attribute objects; "
        "results compared after every step; non-trivial = sequence uses a held Attribute object"
    )
    ok = lean.get("driver_ok", True)
    for f in common.known_findings("C11"):
        if f.get("status") != "open":
            continue
        ctx = next(x for x in CONTEXTS if x["name"] == f["replay"]["ctx"])
        ops = [dict(o, replay_known=True) for o in f["replay"]["ops"]]
        _, _, problems, _ = run_impl(ctx, ops)
        if problems:
            print(f"KNOWN-FINDING: property=C11 {f['key']}: {f['description']}")
            run.known_hit.append(f["key"])
        else:
            run.notes.append(f"known finding {f['key']} no longer reproduces")
    run_cases(run, corpus(), "corpus", ok)
    run_cases(run, [gen_case(run.rng) for _ in range(n)], "generated", ok)
    return run.finish(lean, LEVEL, ASSUME, search=search)


def search(run: Run):
    probe = Run(run.prop, run.tier, run.seed)
    cases = [m["case"] for m in run.mismatches] + corpus() + [gen_case(probe.rng) for _ in range(20000)]
    run_cases(probe, cases, "search", False)
    return [probe.violations[0]] if probe.violations else None


def replay(payload: dict) -> int:
    probe = Run("C11", "quick", 0)
    run_cases(probe, [f["case"] for f in payload.get("failing", [])], "replay", False)
    print(json.dumps(probe.violations[:3], ensure_ascii=False)[:2000])
    return 1 if probe.violations else 0

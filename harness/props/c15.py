"""C15 - fetch_or_create_by_xpath finds or adds, and nothing else."""

from __future__ import annotations

import copy
import json

import common
import trees
from common import Run, run_driver

LEVEL = (
    "Lean theorems (Props/C15.lean) about the model of fetch_or_create_by_xpath/_create_by_xpath and of "
    "_is_unambiguously_locatable/_derived_attributes: a single match is returned with the tree unchanged; after a creation "
    "the same expression selects exactly the returned node (so a second call returns it and changes nothing); only a chain "
    "of new last children is added below the deepest match, with the namespaces/attributes the steps name; rejected and "
    "ambiguous calls leave the tree unchanged. Correspondence: the real call on generated trees x child-axis name-test "
    "paths with attribute-equality predicates (relative/absolute, prefixed/unprefixed, with/without namespaces argument; "
    "prefixes of the path existing 0/1/many times) vs the compiled model (tree with identities, returned node, error class); "
    "property oracle on the implementation: re-query selects the node, second call is a no-op, old nodes untouched, minimality."
)
ASSUME = [
    "calls are made without ambient filters other than the default ones (ambient filters are C08's subject)",
    "attribute equalities within one step are non-contradictory (as the property states)",
]

NAMES = ["a", "b", "c", "a", "b", "c", "x-y", "n_1", "a.b", "é1"]
VALUES = ["1", "2", "1", "2", "v w", "", "x" * 40, "é", "a'b"]


def gen_tree(rng, depth=0, ns=""):
    at = []
    for an in ["k", "m"]:
        if rng.random() < 0.3:
            at.append(["", an, rng.choice(VALUES)])
    if rng.random() < 0.1:
        at.append(["urn:p", "k", rng.choice(VALUES)])
    kids = []
    if depth < 3:
        for _ in range(rng.randrange(0, 4) if rng.random() < 0.93 else rng.randrange(8, 14)):
            r = rng.random()
            if r < 0.7:
                kids.append(gen_tree(rng, depth + 1, ns if rng.random() < 0.85 else rng.choice(["", "urn:p"])))
            elif r < 0.85:
                kids.append(["x", "t"])
            elif r < 0.93:
                kids.append(["c", "c"])
            else:
                kids.append(["p", "pi", "d"])
    return ["t", ns, rng.choice(NAMES), at, kids]


def gen_expr(rng, root_name):
    steps = []
    n = rng.choice([1, 2, 2, 3, 3, 4])
    for _ in range(n):
        pfx = rng.choice(["", "", "", "p:"])
        s = pfx + rng.choice(NAMES)
        preds = []
        used = set()
        for _ in range(rng.choice([0, 0, 1, 1, 2, 2, 3, 4])):
            # unprefixed, the caller's prefix, the reserved xml prefix and one of the library's common prefixes (both are
            # bound without the caller declaring them)
            apfx = rng.choice(["", "", "", "p:", "p:", "xml:", "xlink:"])
            an = rng.choice(["k", "m", "n"]) if apfx not in ("xml:", "xlink:") else rng.choice(["lang", "id", "href"])
            if (apfx, an) in used:
                continue
            used.add((apfx, an))
            v = rng.choice([x for x in VALUES if '"' not in x])
            preds.append(rng.choice(['@%s%s="%s"', '"%s"=@%s%s'][0:1]) % (apfx, an, v) if rng.random() < 0.8 else '"%s"=@%s%s' % (v, apfx, an))
        if len(preds) == 2 and rng.random() < 0.5:
            s += "[%s and %s]" % tuple(preds)
        else:
            s += "".join("[%s]" % p for p in preds)
        steps.append(s)
    e = "/".join(steps)
    r = rng.random()
    if r < 0.15:
        # the root step may carry predicates too: ones the root does not satisfy make the path unreachable without a
        # second root (seeded C15-9: predicates of the first step dropped while creating)
        rp = "" if rng.random() < 0.5 else '[@%s="%s"]' % (rng.choice(["k", "m", "kind"]), rng.choice(["1", "2", "b"]))
        e = "/" + root_name + rp + "/" + e
    elif r < 0.2:
        e = "./" + e
    return e


def gen_invalid(rng):
    return rng.choice(['a[@k="1"][2][@m="2"]', 'a[@k="1"][@m="2"][@n]', 'a[@k="1"][@m="2" or @n="1"][@n="2"]',
                       "a[1]", 'a[@k="1" or @k="2"]', "a|b", "a/descendant-or-self::node()", "a[@k]", "a/../b", "a/*",
                       "a//b", "a[@k!='1']", "a[position()=1]", "a[not(@k)]", "text()", "a[@k=1]"])


def to_xml(tree, default_ns):
    return trees.to_xml(tree, default_ns=default_ns, prefixes={"urn:p": "p"})


def gen_planted(rng):
    """the expression has one complete match; beside it sit elements that match a leading part of the path only
    (dead ends: same names, same required attributes, nothing or an incomplete branch below) - seeded C15-7"""
    n = rng.choice([2, 2, 3, 4])
    names = [rng.choice(["a", "b", "c", "entry", "form"]) for _ in range(n)]
    attrs = [[["", rng.choice(["k", "m"]), rng.choice(["1", "2", "v w"])]] if rng.random() < 0.4 else [] for _ in range(n)]
    expr = "/".join(nm + "".join('[@%s="%s"]' % (a[1], a[2]) for a in at) for nm, at in zip(names, attrs))

    def branch(depth, upto):
        if depth >= upto:
            return []
        return [["t", "", names[depth], [list(a) for a in attrs[depth]], branch(depth + 1, upto)]]

    def add_dead_ends(node, depth):
        """node matches step depth-1 (or is the context for depth 0): add partial branches next to the full one"""
        kids = node[4]
        for _ in range(rng.choice([0, 1, 1, 2])):
            partial = branch(depth, rng.randrange(depth + 1, n)) if depth < n - 1 else []
            if partial:
                kids.insert(rng.randrange(len(kids) + 1), partial[0])
        for k in kids:
            if k[0] == "t" and k[2] == names[depth] and depth + 1 < n and k[4] and rng.random() < 0.5:
                add_dead_ends(k, depth + 1)

    full = branch(0, n)
    root = ["t", "", "root", [], full + ([["x", "t"]] if rng.random() < 0.3 else [])]
    add_dead_ends(root, 0)
    if rng.random() < 0.3:  # the full match itself is missing: the dead ends make the tree ambiguous or the branch is created
        root[4] = [k for k in root[4] if k is not full[0]]
    return {"xml": to_xml(root, None), "ctx": 0, "expr": expr, "ns": None, "p_uri": "urn:p"}


def gen_case(rng):
    if rng.random() < 0.12:
        return gen_planted(rng)
    dn = rng.choice(["", "", "urn:d"])
    t = gen_tree(rng, ns=dn)
    xml = to_xml(t, dn or None)
    expr = gen_expr(rng, t[2]) if rng.random() < 0.9 else gen_invalid(rng)
    nsarg = rng.choice([None, None, "p", "ponly"]) if "p:" not in expr else rng.choice(["p", "p", "ponly"])
    if rng.random() < 0.08:
        nsarg = "empty"
    return {"xml": xml, "ctx": 0 if rng.random() < 0.6 else rng.randrange(0, 1000), "expr": expr, "ns": nsarg,
            "p_uri": rng.choice(P_URIS)}


P_URIS = ["urn:p", "urn:p", "urn:p", "urn:q", "http://www.w3.org/2000/svg"]


def with_twins(rng, cases):
    """the same expression text is used again on another document with the prefix bound to another namespace (parsed
    expressions are cached per text: what one call derived from its namespaces must not leak into the next)"""
    out = []
    for c in cases:
        out.append(c)
        if "p:" in c["expr"] and c["ns"] in ("p", "ponly") and rng.random() < 0.5:
            twin = gen_case(rng)
            twin.update(expr=c["expr"], ns=c["ns"], p_uri=rng.choice([u for u in P_URIS if u != c["p_uri"]]))
            if rng.random() < 0.5:
                twin["xml"] = c["xml"]
                twin["ctx"] = c["ctx"]
            # self-contained for the replay: the earlier call is part of the case
            twin["after"] = {k: c[k] for k in ("xml", "ctx", "expr", "ns", "p_uri")}
            out.append(twin)
    return out


def ns_arg(case, ctx_ns):
    if case["ns"] is None:
        return None
    if case["ns"] == "empty":
        return {}
    if case["ns"] == "ponly":
        # prefixes only: unprefixed names are in no namespace for the query and for the creation
        return {"p": case.get("p_uri", "urn:p")}
    d = {"p": case.get("p_uri", "urn:p")}
    if ctx_ns:
        d[""] = ctx_ns
    return d


def id_tree(nodes_handle, n):
    """id-tree with lxml-level attribute namespaces"""
    from lxml import etree
    from delb import altered_default_filters, CommentNode, TagNode, TextNode

    h = nodes_handle.get(id(n), -1)
    if isinstance(n, TagNode):
        attrs = []
        for k, v in n._etree_obj.attrib.items():
            q = etree.QName(k)
            attrs.append([q.namespace or "", q.localname, v])
        with altered_default_filters():
            return ["t", h, n.namespace, n.local_name, sorted(attrs), [id_tree(nodes_handle, c) for c in n.iterate_children()]]
    if isinstance(n, TextNode):
        return ["x", h, n.content]
    if isinstance(n, CommentNode):
        return ["c", h, n.content]
    return ["p", h, n.target, n.content]


def strip_ids(t):
    if t[0] == "t":
        return ["t", t[2], t[3], sorted(t[4]), [strip_ids(k) for k in t[5]]]
    return [t[0]] + list(t[2:])


def old_part(t, old_ids):
    """the tree restricted to nodes that existed before (new nodes and their subtrees removed)"""
    if t[0] != "t":
        return t
    return ["t", t[1], t[2], t[3], t[4], [old_part(k, old_ids) for k in t[5] if k[1] in old_ids]]


def run_impl(case):
    from delb import Document, TagNode, altered_default_filters
    from _delb.exceptions import AmbiguousTreeError, XPathEvaluationError, XPathParsingError

    if case.get("after"):
        # an earlier call with the same expression text and another binding of the prefix, on its own document
        from _delb.xpath.parser import parse

        parse.cache_clear()
        first = case["after"]
        d0 = Document(first["xml"])
        with altered_default_filters():
            t0 = [n for n in [d0.root] + list(d0.root.iterate_descendants()) if isinstance(n, TagNode)]
        c0 = t0[first["ctx"] % len(t0)]
        try:
            c0.fetch_or_create_by_xpath(first["expr"], namespaces=ns_arg(first, c0.namespace))
        except Exception:  # noqa: BLE001
            pass
    doc = Document(case["xml"])
    with altered_default_filters():
        nodes = [doc.root] + list(doc.root.iterate_descendants())
    tags = [n for n in nodes if isinstance(n, TagNode)]
    ctx = tags[case["ctx"] % len(tags)]
    handle = {id(n): i for i, n in enumerate(nodes)}
    before = id_tree(handle, doc.root)
    ns = ns_arg(case, ctx.namespace)
    out = {}
    problems = []
    try:
        pre = list(ctx.xpath(case["expr"], namespaces=ns))
    except Exception:  # noqa: BLE001
        pre = None
    try:
        r = ctx.fetch_or_create_by_xpath(case["expr"], namespaces=ns)
        if pre is not None and len(pre) == 1 and r is not pre[0]:
            problems.append({"why": "the expression selected exactly one node before the call, another node was returned"})
        with altered_default_filters():
            now = [doc.root] + list(doc.root.iterate_descendants())
        n_old = len(nodes)
        k = n_old
        for n in now:
            if id(n) not in handle:
                handle[id(n)] = k
                k += 1
        keep = now  # noqa: F841
        after = id_tree(handle, doc.root)
        out = {"node": handle[id(r)], "tree": after}
        # --- the property, on the implementation
        sel = list(ctx.xpath(case["expr"], namespaces=ns))
        if len(sel) != 1 or sel[0] is not r:
            problems.append({"why": "the expression does not select exactly the returned node afterwards",
                             "selected": [handle.get(id(x)) for x in sel], "returned": handle[id(r)]})
        r2 = ctx.fetch_or_create_by_xpath(case["expr"], namespaces=ns)
        again = id_tree(handle, doc.root)
        if r2 is not r or again != after:
            problems.append({"why": "a second call is not a no-op returning the same node"})
        old_ids = set(range(n_old))
        if old_part(after, old_ids) != before:
            problems.append({"why": "nodes that existed before changed position, content or attributes"})
    except ValueError:
        out = {"err": "ValueError"}
    except AmbiguousTreeError:
        out = {"err": "AmbiguousTreeError"}
    except XPathEvaluationError:
        out = {"err": "XPathEvaluationError"}
    except XPathParsingError:
        out = {"err": "parse"}
    except Exception as e:  # noqa: BLE001
        out = {"err": type(e).__name__}
    if out.get("err") == "AmbiguousTreeError" and pre is not None and len(pre) == 1:
        problems.append({"why": "AmbiguousTreeError although the expression selects exactly one existing node (the call must "
                                "return it: a second call after unrelated additions returns the same node)"})
    if "err" in out:
        after = id_tree(handle, doc.root)
        if after != before:
            problems.append({"why": f"call ended with {out['err']} but changed the tree"})
    return before, ctx, handle, out, problems


def path_of(ctx):
    from delb import altered_default_filters

    p = []
    with altered_default_filters():
        n = ctx
        while n.parent is not None:
            p.append(n.index)
            n = n.parent
    return list(reversed(p))


def count_new(before, after):
    def size(t):
        return 1 + (sum(size(k) for k in t[5]) if t[0] == "t" else 0)

    return size(after) - size(before)


def is_known(case, out):
    for f in common.known_findings("C15"):
        if f.get("status") != "open":
            continue
        if f["key"] == "absolute-path-beside-root" and out.get("err") == "AssertionError" and case["expr"].startswith("/"):
            return f["key"]
        if f["key"] == "unbound-prefix-found-after-creating" and case["ns"] == "empty" and "p:" in case["expr"]:
            return f["key"]
    return None


def judge(run: Run, stream, case, before, ctx, out, problems, model):
    run.case(stream, case, "node" in out and count_new(before, out["tree"]) > 0)
    run.count("outcome", out.get("err", "created %d" % min(count_new(before, out["tree"]), 4) if "tree" in out else "?"))
    known = is_known(case, out)
    if not known:
        for pr in problems:
            run.violation(stream, case, pr)
        if out.get("err") == "XPathEvaluationError":
            # an evaluation error is a legitimate rejection only for a prefix that nothing binds: the caller's mapping,
            # the reserved xml prefix and the library's common prefixes are bound
            import re as _re

            used = set(_re.findall(r"([A-Za-z_][\w.-]*):(?!:)", case["expr"]))
            bound = {"xml", "xlink"} | ({"p"} if case["ns"] in ("p", "ponly") else set())
            if used <= bound:
                run.violation(stream, case, {"why": "call refused with XPathEvaluationError although every prefix of the expression is bound"})
        if out.get("err") == "InvalidOperation" and not case["expr"].startswith("/"):
            run.violation(stream, case, {"why": "InvalidOperation for a relative path"})
        if out.get("err") not in (None, "ValueError", "AmbiguousTreeError", "XPathEvaluationError", "parse", "InvalidOperation"):
            run.violation(stream, case, {"why": f"call raised {out['err']}"})
    if model is None or known:
        return
    if "driver_error" in model:
        raise common.ToolFailure(str(model))
    if "nsmap_err" in model:
        return
    if "parse" in model:
        if out.get("err") != "parse":
            run.mismatch(stream, case, out, model)
        return
    if "err_eval" in model:
        if "err" not in out:
            run.mismatch(stream, case, out, model)
        return
    if "err" in model:
        if out.get("err") != model["err"]:
            run.mismatch(stream, case, out, model)
        return
    if "err" in out or out["node"] != model["node"] or out["tree"] != sort_tree(model["tree"]):
        run.mismatch(stream, case, out, model)


def sort_tree(t):
    if t[0] == "t":
        return ["t", t[1], t[2], t[3], sorted(t[4]), [sort_tree(k) for k in t[5]]]
    return t


def run_cases(run: Run, cases, stream, lean_ok=True):
    rows = []
    for c in cases:
        try:
            before, ctx, handle, out, problems = run_impl(c)
        except Exception as e:  # noqa: BLE001
            run.case(stream, c, False)
            run.violation(stream, c, f"case could not be built: {type(e).__name__}: {e}")
            continue
        rows.append((c, before, ctx, out, problems))
    reqs = []
    for c, before, ctx, out, _ in rows:
        ns = ns_arg(c, ctx.namespace)
        dq = None if ns is None else [[k, v] for k, v in ns.items()]
        dc = None if ns is None else [[k, v] for k, v in ns.items()]
        reqs.append({"cmd": "foc", "tree": before, "next": max_id(before) + 1, "ctx": path_of(ctx), "expr": c["expr"],
                     "decls_query": dq, "decls_create": dc})
    models = run_driver(reqs) if lean_ok and rows else [None] * len(rows)
    for (c, before, ctx, out, problems), m in zip(rows, models):
        judge(run, stream, c, before, ctx, out, problems, m)


def max_id(t):
    return max([t[1]] + [max_id(k) for k in (t[5] if t[0] == "t" else [])])


def corpus():
    base = "<root><intermediate/></root>"
    cs = [{"xml": base, "ctx": 0, "expr": e, "ns": None} for e in
          ["test", "intermediate/target", "/root/test", "/root/intermediate/target", 'author/name[@type="surname"]',
           'entry/sense/cit[@type="translation" and "en"=@lang]', 'entry/sense/cit[@type="translation"]["en"=@lang]',
           "child[0]", "root/foo|./foo/bar", "body/div[@hidden]", "/other/x"]]
    cs.append({"xml": '<r xmlns="urn:d"><a/></r>', "ctx": 0, "expr": 'a/b[@k="v"]/c', "ns": None})
    cs.append({"xml": '<r xmlns="urn:d"><a/><a/></r>', "ctx": 0, "expr": "a/b", "ns": None})
    cs.append({"xml": "<root><intermediate/></root>", "ctx": 0, "expr": "intermediate/p:test", "ns": "p"})
    cs.append({"xml": '<root xmlns:p="urn:p"/>', "ctx": 0, "expr": "node[@p:attr='value']", "ns": "p"})
    cs.append({"xml": '<root xmlns="urn:x"><keep k="v">text</keep></root>', "ctx": 0, "expr": "p:a/b", "ns": "ponly"})
    return cs


def check(run: Run, lean: dict) -> int:
    n = run.budget(1200, 30000)
    run.extra["rule"] = (
        "generated trees (default namespace or none, a prefixed namespace, attributes, text/comment/PI children) x tag "
        "context node x child-axis name-test paths of 1-4 steps with 0-2 attribute-equality predicates per step (both operand "
        "orders, `and` or stacked), relative / ./ / absolute, prefixed and unprefixed, with and without namespaces argument; "
        "10% expressions that do not determine a branch; non-trivial = at least one node created"
    )
    ok = lean.get("driver_ok", True)
    for f in common.known_findings("C15"):
        if f.get("status") == "open":
            print(f"KNOWN-FINDING: property=C15 {f['key']}: {f['description']}")
            run.known_hit.append(f["key"])
    run_cases(run, corpus(), "corpus", ok)
    run_cases(run, with_twins(run.rng, [gen_case(run.rng) for _ in range(n)]), "generated", ok)
    return run.finish(lean, LEVEL, ASSUME, search=search)


def search(run: Run):
    probe = Run(run.prop, run.tier, run.seed)
    cases = [m["case"] for m in run.mismatches] + corpus() + with_twins(probe.rng, [gen_case(probe.rng) for _ in range(15000)])
    run_cases(probe, cases, "search", False)
    return [probe.violations[0]] if probe.violations else None


def replay(payload: dict) -> int:
    probe = Run("C15", "quick", 0)
    run_cases(probe, [f["case"] for f in payload.get("failing", [])], "replay", False)
    print(json.dumps(probe.violations[:3], ensure_ascii=False)[:2000])
    return 1 if probe.violations else 0

"""C07 - whitespace reduction is the TEI normalisation, exactly and idempotently."""

from __future__ import annotations

import itertools
import json

import common
import trees
from common import Run, run_driver

LEVEL = (
    "Lean theorems (Props/C07.lean): the four-rule table of _reduce_whitespace_content equals the declarative "
    "normalisation for every string and position; the traversal model equals the specification on every tree; "
    "idempotence, skeleton/non-whitespace preservation, preserve-subtrees untouched; generated-table obligation "
    "that regex \\s, str.strip and str.isspace agree. Correspondence: Document.reduce_whitespace(), "
    "ParserOptions(reduce_whitespace=True) and TagNode.parse on generated documents vs the compiled Lean model "
    "(exact tree equality), plus an independent Python statement of the normal form as property oracle."
)
ASSUME = [
    "whitespace = code points for which Python's \\s / str.strip / str.isspace hold (generated table; they agree)",
    "lxml delivers text segmentation and attribute values as extracted through delb's API",
]


# ------------------------------------------------------------------ independent oracle
def collapse(s):
    out, run = [], False
    for ch in s:
        if ch.isspace():
            if not run:
                out.append(" ")
            run = True
        else:
            out.append(ch)
            run = False
    return "".join(out)


def directive(attrs, inherited):
    for a in attrs:
        if a[0] == trees.XML_NS and a[1] == "space":
            if a[2] in ("default", "preserve"):
                return a[2]
    return inherited


def spec_reduce(tree, mode="default"):
    """The normal form, stated directly (on a merged tree)."""
    if tree[0] != "t":
        return tree
    mode = directive(tree[3], mode)
    kids = [spec_reduce(k, mode) for k in tree[4] if not (k[0] == "x" and k[1] == "")]
    if mode == "preserve":
        return ["t", tree[1], tree[2], tree[3], kids]
    out = []
    n = len(kids)
    for i, k in enumerate(kids):
        if k[0] != "x":
            out.append(k)
            continue
        c = collapse(k[1])
        if i == 0:
            c = c.lstrip(" ")
        if i == n - 1:
            c = c.rstrip(" ")
        if c == "" and n == 1:
            c = " "
        if c:
            out.append(["x", c])
    return ["t", tree[1], tree[2], tree[3], out]


def nonws(s):
    return "".join(ch for ch in s if not ch.isspace())


def skeleton(t):
    if t[0] != "t":
        return t
    return ["t", t[1], t[2], trees.sort_attrs(t[3]), [skeleton(k) for k in t[4] if k[0] != "x"]]


def all_nodes(root):
    from delb import altered_default_filters

    with altered_default_filters():
        return [root] + list(root.iterate_descendants())


def handle_problems(doc, handles):
    """node objects fetched before the reduction: one that is still in the tree is found there by identity with its
    content; one that was removed (text that became empty, text merged into its neighbour) has no parent, no siblings
    and is not in the document any more"""
    from delb import TextNode

    now = {id(n): n for n in all_nodes(doc.root)}
    problems = []
    for n in handles:
        if id(n) in now:
            continue
        if not isinstance(n, TextNode):
            problems.append(f"a {type(n).__name__} fetched before the reduction is not in the tree any more")
            continue
        try:
            attached = n.parent is not None or n in doc or n.fetch_following_sibling() is not None or n.fetch_preceding_sibling() is not None
        except AssertionError:
            # a text node that was merged into its predecessor is left in a state in which its relations cannot be
            # asked for (observation recorded in DESIGN.md section 4); the property is about text that becomes empty
            continue
        if attached:
            problems.append(f"a removed text node ({n.content!r}) still has a parent / siblings / is in the document")
    return problems


# ------------------------------------------------------------------ implementation runs
def impl_variants(case):
    """Returns {variant: reduced plain tree or exception text} and the tree before reduction."""
    import warnings

    from delb import Document, ParserOptions, TagNode

    out = {}
    with warnings.catch_warnings():
        warnings.simplefilter("ignore")
        if case["how"] == "parsed":
            xml = case["xml"]
            d = Document(xml)
            before = trees.extract(d.root)
            handles = all_nodes(d.root)
            d.reduce_whitespace()
            out["handles"] = handle_problems(d, handles)
            out["reduce_whitespace"] = trees.extract(d.root)
            d.reduce_whitespace()
            out["twice"] = trees.extract(d.root)
            out["parser_option"] = trees.extract(Document(xml, ParserOptions(reduce_whitespace=True)).root)
            out["TagNode.parse"] = trees.extract(TagNode.parse(xml, ParserOptions(reduce_whitespace=True)))
            # a document loaded with the option, edited afterwards, reduced again by the method (seeded C07-8: the method
            # trusting the option)
            d3 = Document(xml, ParserOptions(reduce_whitespace=True))
            held3 = all_nodes(d3.root)  # noqa: F841
            d3.root.append_children("  late \n text  ", " ")
            d3.root.prepend_children(" \t")
            before3 = trees.extract(d3.root)
            d3.reduce_whitespace()
            out["__edited_after_option"] = {"before": before3, "got": trees.extract(d3.root)}
        else:
            root = trees.build_api(case["tree"])
            held = list(root.iterate_descendants())  # keep chained text nodes alive
            before = trees.extract(root)
            d = Document(root)
            handles = all_nodes(d.root)
            d.reduce_whitespace()
            out["handles"] = handle_problems(d, handles)
            out["reduce_whitespace"] = trees.extract(d.root)
            d.reduce_whitespace()
            out["twice"] = trees.extract(d.root)
            del held
            # the loaders also take a tree built through the API (adjacent text nodes included): loading it with the
            # reduce option must equal loading it without and reducing afterwards (seeded C07-7)
            root2 = trees.build_api(case["tree"])
            held2 = list(root2.iterate_descendants())
            d2 = Document(root2, parser_options=ParserOptions(reduce_whitespace=True))
            out["parser_option"] = trees.extract(d2.root)
            d2.reduce_whitespace()
            out["parser_option_then_reduce"] = trees.extract(d2.root)
            del held2
    return before, out


def gen_case(rng, i):
    r = rng.random()
    ws = trees.WS if r < 0.9 else [chr(c) for c in (0x0D, 0x85, 0xA0, 0x1680, 0x2003, 0x2028, 0x202F, 0x3000)]
    text = lambda g: trees.gen_text(g, ws_prob=0.6, ws=ws)  # noqa: E731
    if rng.random() < 0.7:
        t = trees.gen_tree(rng, max_depth=3, max_kids=5, text=text, space_attr=0.2, nss=["", "", "urn:x"])
        return {"how": "parsed", "xml": trees.to_xml(t), "exotic": r >= 0.9}
    text2 = lambda g: trees.gen_text(g, ws_prob=0.6, ws=ws)  # noqa: E731  (empty text nodes: corpus only, see C01 findings)
    t = trees.gen_tree(rng, max_depth=3, max_kids=5, text=text2, space_attr=0.2, nss=["", "", "urn:x"], adjacent_text=True)
    return {"how": "api", "tree": t, "exotic": r >= 0.9}


def exhaustive_cases():
    """Every text child over {x, space, LF}^(1..3) x position class x neighbour kind."""
    texts = ["".join(p) for n in (1, 2, 3) for p in itertools.product("x \n", repeat=n)]
    cases = []
    for s in texts:
        e = trees.esc_text(s)
        for nb in ("<b/>", "<!--c-->", "<?p d?>"):
            cases.append(f"<a>{e}{nb}</a>")
            cases.append(f"<a>{nb}{e}</a>")
            cases.append(f"<a>{nb}{e}{nb}</a>")
        cases.append(f"<a>{e}</a>")
        cases.append(f'<a xml:space="preserve">{e}<b xml:space="default">{e}<c/>{e}</b></a>')
    return [{"how": "parsed", "xml": x, "exotic": False} for x in cases]


def is_known(case, before) -> str | None:
    for f in common.known_findings("C07"):
        if f.get("status") != "open":
            continue
        if f["key"] == "chained-text-not-merged" and case["how"] == "api":
            if trees.canon(before) != trees.merge_text(before):
                return f["key"]
    return None


def judge(run: Run, stream, case, before, variants, model):
    merged = trees.merge_text(before)
    expect = trees.canon(spec_reduce(merged))
    known = is_known(case, before)
    nontrivial = trees.full_text(before) != trees.full_text(expect)
    run.case(stream, case, nontrivial)
    run.count("how", case["how"])
    run.count("size", min(trees.size(before), 30) // 5 * 5)
    for pr in variants.pop("handles", []):
        run.violation(stream, case, {"why": pr, "before": before})
    edited = variants.pop("__edited_after_option", None)
    if edited is not None and not known:
        want = trees.canon(spec_reduce(trees.merge_text(edited["before"])))
        if trees.canon(edited["got"]) != want:
            run.violation(stream, case, {"variant": "reduce_whitespace() on a document that was loaded with the reduce option and "
                                                    "edited afterwards", "before": edited["before"], "got": edited["got"], "expected": want})
    for name, got in variants.items():
        if isinstance(got, str):
            if not known:
                run.violation(stream, case, f"{name} raised {got}")
            continue
        g = trees.canon(got)
        if g != expect and not known:
            why = "normal form differs"
            if skeleton(g) != skeleton(expect):
                why = "elements/attributes/comments/PIs changed"
            elif nonws(trees.full_text(g)) != nonws(trees.full_text(before)):
                why = "non-whitespace characters changed"
            run.violation(stream, case, {"variant": name, "why": why, "before": before, "got": got, "expected": expect})
        if model is not None and not known:
            if g != trees.canon(model["impl"]):
                run.mismatch(stream, case, got, model["impl"], f"{name}: impl != Lean reduceImpl")
    if model is not None and trees.canon(model["impl"]) != trees.canon(model["spec"]):
        run.mismatch(stream, case, model["impl"], model["spec"], "Lean reduceImpl != reduceSpec")
    if model is not None and trees.canon(model["spec"]) != expect:
        run.mismatch(stream, case, model["spec"], expect, "Lean reduceSpec != python oracle")


def run_cases(run: Run, cases, stream, lean_ok=True):
    rows = []
    for c in cases:
        try:
            before, variants = impl_variants(c)
        except Exception as e:  # noqa: BLE001
            run.case(stream, c, False)
            run.violation(stream, c, f"raised {type(e).__name__}: {e}")
            continue
        rows.append((c, before, variants))
    models = run_driver([{"cmd": "reduce", "tree": b, "merge": True} for _, b, _ in rows]) if lean_ok and rows else [None] * len(rows)
    for (c, before, variants), m in zip(rows, models):
        if m is not None and "driver_error" in m:
            raise common.ToolFailure(f"driver: {m}")
        judge(run, stream, c, before, variants, m)


def check(run: Run, lean: dict) -> int:
    n = run.budget(1200, 30000)
    run.extra["rule"] = (
        "generated documents (text with leading/trailing/inner/only whitespace at first/middle/last/only positions next to "
        "elements, comments, PIs; nested xml:space preserve/default/invalid; 10% with exotic Unicode whitespace) parsed from "
        "XML or built through the API (adjacent and empty text nodes); plus the exhaustive stream over {x,space,LF}^(1..3) x "
        "position x neighbour kind; non-trivial = reduction changes the text"
    )
    ok = lean.get("driver_ok", True)
    for f in common.known_findings("C07"):
        if f.get("status") != "open":
            continue
        before, variants = impl_variants(f["replay"])
        exp = trees.canon(spec_reduce(trees.merge_text(before)))
        if any(isinstance(v, str) or trees.canon(v) != exp for v in variants.values()):
            print(f"KNOWN-FINDING: property=C07 {f['key']}: {f['description']}")
            run.known_hit.append(f["key"])
    ex = exhaustive_cases()
    run_cases(run, ex, "exhaustive", ok)
    run.extra["exhaustive_stream_cases"] = len(ex)
    run_cases(run, corpus_cases(), "corpus", ok)
    run_cases(run, [gen_case(run.rng, i) for i in range(n)], "generated", ok)
    return run.finish(lean, LEVEL, ASSUME, search=search)


def corpus_cases():
    return [
        {"how": "api", "tree": ["t", "", "r", [], [["x", "a "], ["x", " b"]]], "exotic": False},
        {"how": "api", "tree": ["t", "", "r", [], [["x", ""], ["t", "", "b", [], []], ["x", " "], ["c", "k"], ["x", ""]]], "exotic": False},
        {"how": "parsed", "xml": "<r> <a> </a> <!--c--> x  y <?p d?> </r>", "exotic": False},
        {"how": "parsed", "xml": '<r xml:space="preserve"> <a xml:space="default"> x <b xml:space="bogus"> y </b> </a> </r>', "exotic": False},
        {"how": "parsed", "xml": "<r>a&#13;&#13; b  c</r>", "exotic": True},
    ]


def search(run: Run):
    cands = [m["case"] for m in run.mismatches] + exhaustive_cases()
    cands += [gen_case(run.rng, i) for i in range(8000)]
    probe = Run(run.prop, run.tier, run.seed)
    for c in cands:
        try:
            before, variants = impl_variants(c)
        except Exception as e:  # noqa: BLE001
            return [{"case": c, "detail": f"raised {type(e).__name__}: {e}"}]
        judge(probe, "search", c, before, variants, None)
        if probe.violations:
            return [probe.violations[0]]
    return None


def replay(payload: dict) -> int:
    bad = 0
    for f in payload.get("failing", []):
        c = f["case"]
        probe = Run("C07", "quick", 0)
        before, variants = impl_variants(c)
        judge(probe, "replay", c, before, variants, None)
        print(json.dumps({"case": c, "before": before, "variants": variants, "violations": probe.violations}, ensure_ascii=False))
        bad += bool(probe.violations)
    return 1 if bad else 0

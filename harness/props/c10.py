"""C10 - clones are equal to, and independent of, their originals."""

from __future__ import annotations

import copy
import gc
import json

import common
import edits as E
import trees
from common import Run, run_driver

LEVEL = (
    "Lean theorems (Props/C10.lean, with c01_clone): a deep clone is the same tree with fresh identities numbered in "
    "document order, a shallow clone keeps name and attributes only, cloning adds one parentless group and changes nothing "
    "else, every edit leaves untouched groups exactly as they were (frame) and hence no history on one side is visible on "
    "the other; _copy_root_siblings reproduces prologue and epilogue in order. Correspondence: clones (deep, shallow, "
    "copy/deepcopy, Document.clone) of every kind of node of forests reached by edit histories: equality of trees, "
    "freshness of every object, absence of the tail text, then random edits on either side with the other side re-dumped, "
    "all compared with the compiled model."
)
ASSUME = [
    "all nodes referenced by the harness, cyclic collector off (text segmentation of unreferenced clones is C04's allowance)",
    "attribute-bearing documents are not under a default namespace (C11 finding: such attributes break after re-parenting)",
]


def strip(t):
    if t[0] == "t":
        return ["t", t[2], t[3], trees.sort_attrs(t[4]), [strip(k) for k in t[5]]]
    return [t[0]] + list(t[2:])


def all_objects(node):
    from delb import altered_default_filters

    with altered_default_filters():
        return [node] + list(node.iterate_descendants())


def run_one(run: Run, stream, xml, seed_ops, length, rows):
    from copy import copy as pycopy, deepcopy
    from delb import TagNode, altered_default_filters

    gc.disable()
    try:
        world = E.World(xml)
        mirror = E.initial_mirror(world)
        ops = []
        for step in range(length if seed_ops is None else len(seed_ops)):
            op = E.gen_op(run.rng, mirror) if seed_ops is None else seed_ops[step]
            if "create" in op:
                world.create(op["create"], mirror.create(op["create"]))
            else:
                try:
                    mirror.apply(copy.deepcopy(op))
                except E.Rejected:
                    break
                if world.apply(op)[0]:
                    return
            ops.append(op)
            if world.dump(mirror) != mirror.live():
                return
            for nid in list(world.objs):
                if nid not in mirror.all_ids():
                    world.forget(nid)
        # clone a few nodes of every kind
        nodes = [(g, p, n) for g, t in enumerate(mirror.groups) if t is not None for p, n in E.walk(t)]
        run.rng.shuffle(nodes)
        for _, _, n0 in nodes[:4]:
            loc = mirror.find(E.tid(n0))
            if loc is None or E.tid(n0) not in world.objs:
                continue
            g, p = loc
            n = mirror.node(g, p)
            obj = world.objs[E.tid(n)]
            how = run.rng.choice(["deep", "deep", "shallow", "deepcopy", "copy"]) if n[0] == "t" else "deep"
            case = {"xml": xml, "ops": ops, "clone": E.tid(n), "how": how}
            run.case(stream, case, n[0] == "t" and len(n[5]) > 0)
            run.count("cloned kind", n[0] + ":" + how)
            before = world.dump(mirror, adopt=False)
            with altered_default_filters():
                if how == "deep":
                    c = obj.clone(deep=True)
                elif how == "shallow":
                    c = obj.clone(deep=False)
                elif how == "deepcopy":
                    c = deepcopy(obj)
                else:
                    c = pycopy(obj)
                deep = how in ("deep", "deepcopy") or n[0] != "t"
                want = strip(n) if deep else ["t", n[2], n[3], trees.sort_attrs(n[4]), []]
                got = strip(world.dump_node(c, None, False))
                problems = []
                if got != want:
                    problems.append({"why": "clone differs from the original subtree", "clone": got, "original": want})
                if c.parent is not None or c.fetch_following_sibling() is not None or c.fetch_preceding_sibling() is not None:
                    problems.append({"why": "clone is not a parentless tree of its own"})
                mine = {id(o) for o in all_objects(c)}
                theirs = {id(o) for o in world.objs.values()}
                if mine & theirs:
                    problems.append({"why": "clone shares node objects with existing trees"})
                if isinstance(c, TagNode):
                    etree_tail = c._etree_obj.tail
                    if etree_tail is not None:
                        problems.append({"why": "clone carries text that followed the original", "tail": etree_tail})
            after = world.dump(mirror, adopt=False)
            if after != before:
                problems.append({"why": "cloning changed the original forest"})
            # independence: register the clone as a new group, edit either side, re-dump the other
            if deep:
                new = mirror.clone(copy.deepcopy(n))
            else:
                new = ["t", mirror.fresh(), n[2], n[3], copy.deepcopy(n[4]), []]
            mirror.groups.append(new)
            world.register(c, E.tid(new))
            world.dump(mirror)  # adopt ids of the clone's descendants
            clone_group = len(mirror.groups) - 1
            clone_ids = {E.tid(x) for _, x in E.walk(new)}
            for _ in range(4):
                op = E.gen_op(run.rng, mirror)
                if "create" in op:
                    continue
                # keep the two sides apart: an op either works inside the clone or outside of it
                ids_in_op = {op["target"]} | {i["node"] for i in op.get("items", []) if "node" in i and not i.get("clone")}
                inside = ids_in_op <= clone_ids
                outside = not (ids_in_op & clone_ids)
                if not (inside or outside):
                    continue
                snap_clone = copy.deepcopy(mirror.groups[clone_group])
                snap_rest = [copy.deepcopy(t) for i, t in enumerate(mirror.groups) if i != clone_group]
                try:
                    mirror.apply(copy.deepcopy(op))
                except E.Rejected:
                    break
                try:
                    if world.apply(op)[0]:
                        break
                except KeyError:
                    problems.append({"why": "an edit addresses a node of the clone that the clone does not have", "op": op})
                    break
                ops.append(op)
                got_all = world.dump(mirror)
                if got_all != mirror.live():
                    problems.append({"why": "edit after cloning not as on a plain tree", "op": op})
                    break
                for nid in list(world.objs):
                    if nid not in mirror.all_ids():
                        world.forget(nid)
                clone_ids = {E.tid(x) for _, x in E.walk(mirror.groups[clone_group])} if mirror.groups[clone_group] else set()
                if outside and mirror.groups[clone_group] != snap_clone:
                    raise common.ToolFailure("mirror: edit outside the clone changed it")
                if not clone_ids:
                    break
            for pr in problems:
                run.violation(stream, case, pr)
            rows.append((case, n))
        return ops
    finally:
        gc.enable()


# attribute-bearing documents: attributes in no namespace and in prefixed namespaces on elements in no namespace and in
# prefixed namespaces (not under a default namespace, see the assumptions)
DOCS_ATTR = [
    '<r a="1" b="2"><a id="x">t<b n="1" m=""/>u</a><!--c--><c k="v w"/></r>',
    '<p:r xmlns:p="urn:p" xmlns:q="urn:q" n="0"><p:item n="1" q:ref="r">text<!--c--><plain n="2" p:n="3"/>tail</p:item></p:r>',
    '<r xmlns:q="urn:q" q:a="1" a="2"><q:e q:a="3" a="4"><e xml:lang="en" a="5"/></q:e>x</r>',
    '<p:r xmlns:p="urn:p"><p:a p:k="1" k="2"><p:b k="3"/></p:a>y<c xmlns:z="urn:z" z:k="4"/></p:r>',
]
DOCS = E.DOCS + DOCS_ATTR


def document_clone(run: Run, stream):
    """Document.clone reproduces prologue and epilogue"""
    from delb import Document

    rng = run.rng
    pro = [rng.choice(["<!--a-->", "<?p x?>", "<!-- b -->", "<?q?>"]) for _ in range(rng.randint(0, 3))]
    epi = [rng.choice(["<!--z-->", "<?e y?>", "<!---->"]) for _ in range(rng.randint(0, 3))]
    xml = "".join(pro) + rng.choice(DOCS) + "".join(epi)
    # the document's configuration must not change what a clone looks like: parser options of every kind, and edits
    # after loading that leave reducible whitespace, comments and processing instructions in the tree
    from delb import ParserOptions, altered_default_filters, new_comment_node, new_processing_instruction_node, tag

    opts = {k: rng.random() < 0.4 for k in ("reduce_whitespace", "remove_comments", "remove_processing_instructions")}
    edits = rng.randint(0, 3)
    case = {"xml": xml, "document_clone": True, "parser_options": opts, "edits": edits}
    run.case(stream, case, bool(pro or epi))
    d = Document(xml, parser_options=ParserOptions(**opts))
    keep = []
    with altered_default_filters():
        tags = [d.root] + [n for n in d.root.iterate_descendants() if type(n).__name__ == "TagNode"]
        for _ in range(edits):
            t = rng.choice(tags)
            keep.extend(t.append_children(rng.choice(["  two   three ", " lead", "   ", "tail  end ", "x"]),
                                          rng.choice([tag("c", "x  y"), new_comment_node(" c "), new_processing_instruction_node("p", "d  d"), "\n  z"])))
    xml = str(d)
    # cloning is an observation whose result does not depend on the caller's default filters (C08): the clone is made
    # under the library defaults, with all node kinds visible, or with comments only (seeded C10-8)
    import contextlib

    from delb import is_comment_node

    amb = rng.choice(["default", "none", "comments", "constructor-none"])
    case["ambient"] = amb
    with (contextlib.nullcontext() if amb == "default" else altered_default_filters(is_comment_node) if amb == "comments"
          else altered_default_filters()):
        c = Document(d.root) if amb == "constructor-none" else d.clone()
    ok = (
        [str(n) for n in c.prologue] == [str(n) for n in d.prologue]
        and [str(n) for n in c.epilogue] == [str(n) for n in d.epilogue]
        # modulo coalescing of adjacent text nodes nobody references (C04 permits it at any collection)
        and trees.merge_text(trees.extract(c.root)) == trees.merge_text(trees.extract(d.root))
        and c.root is not d.root
        and all(a is not b for a in c.prologue for b in d.prologue)
    )
    if not ok:
        run.violation(stream, case, {"why": "document clone differs", "clone": str(c), "original": str(d)})
    # independence on document level
    c.root.append_children("X")
    c.prologue.insert(0, __import__("delb").new_comment_node("new"))
    if str(d) != xml:
        run.violation(stream, case, {"why": "editing the clone changed the original document"})
    run.count("document clone", f"{len(pro)}+{len(epi)}")


def wide_clones(run: Run, stream):
    """cloning is not bounded by the number of children: a node with many children (more than the interpreter's
    recursion limit) is cloned like any other (seeded C10-7: all children handed to one recursive call)"""
    import copy as _copy
    import sys

    import trees
    from delb import Document, new_comment_node, new_tag_node, tag

    width = sys.getrecursionlimit() + 300
    for how in ("clone", "deepcopy", "Document.clone"):
        body = new_tag_node("body")
        kids = []
        for i in range(width):
            kids.append(tag("e") if i % 3 else ("t%d" % i if i % 2 else new_comment_node("c%d" % i)))
            if len(kids) == 200:
                body.append_children(*kids)
                kids = []
        if kids:
            body.append_children(*kids)
        root = new_tag_node("r", children=[body])
        keep = [root, body] + list(body.iterate_children())  # noqa: F841
        case = {"sub": ["wide", how], "children": width}
        run.case(stream, case, True)
        try:
            if how == "clone":
                c = root.clone(deep=True)
            elif how == "deepcopy":
                c = _copy.deepcopy(root)
            else:
                c = Document(root).clone().root
        except Exception as e:  # noqa: BLE001
            run.violation(stream, case, {"why": f"cloning a node with {width} children raised {type(e).__name__}"})
            continue
        if trees.extract(c) != trees.extract(root):
            run.violation(stream, case, {"why": f"the clone of a node with {width} children differs from the original"})


def compare_with_model(run: Run, rows):
    if not rows:
        return
    reqs = [{"cmd": "clone", "tree": n} for _, n in rows]
    for (case, n), m in zip(rows, run_driver(reqs)):
        if "driver_error" in m:
            raise common.ToolFailure(str(m))
        if strip(m["clone"]) != strip(n) or m["fresh_ok"] is not True:
            run.mismatch("model", case, strip(n), m)


def check(run: Run, lean: dict) -> int:
    n = run.budget(150, 4000)
    run.extra["rule"] = (
        "forests reached by random Legal histories; up to 4 nodes of any kind cloned per forest (deep, shallow, "
        "copy.copy, copy.deepcopy), each followed by up to 4 random edits confined to the clone or to the rest with the "
        "other side re-dumped; plus Document.clone with 0-3 prologue/epilogue nodes; plus clones of a node with more children "
        "than the recursion limit; non-trivial = cloned tag with children"
    )
    ok = lean.get("driver_ok", True) and lean.get("clone_cmd", True)
    rows = []
    for _ in range(n):
        run_one(run, "generated", E.pick_doc(run.rng, DOCS), None, run.rng.randint(0, 10), rows)
    for _ in range(n // 3):
        document_clone(run, "document")
    wide_clones(run, "wide")
    if ok:
        compare_with_model(run, rows)
    return run.finish(lean, LEVEL, ASSUME, search=search)


def search(run: Run):
    probe = Run(run.prop, run.tier, run.seed)
    for _ in range(1500):
        run_one(probe, "search", E.pick_doc(probe.rng, DOCS), None, probe.rng.randint(0, 12), [])
        document_clone(probe, "search")
        if probe.violations:
            return [probe.violations[0]]
    return None


def replay(payload: dict) -> int:
    print(json.dumps(payload.get("failing", [])[:1], ensure_ascii=False)[:2000])
    probe = Run("C10", "quick", payload.get("seed", 0))
    for _ in range(300):
        run_one(probe, "replay", E.pick_doc(probe.rng, DOCS), None, probe.rng.randint(0, 10), [])
    return 1 if probe.violations else 0

"""C16 - any string is either a parsed XPath expression or an XPathParsingError."""

from __future__ import annotations

import json
import re

import common
from common import Run, run_driver

LEVEL = (
    "Lean theorems (Props/C16.lean) over a line-by-line model of tokenizer.py/parser.py/ast constructors with an "
    "explicit `.pyError` outcome at every Python index/lookup/assert site: for every string the model never yields "
    "`.pyError`, never runs out of fuel (termination), and a reported position lies inside the expression. "
    "Tables (token classes, literals, functions with arities, axis attribute names, node type tests) are regenerated "
    "from /repo each run. Correspondence: outcome class, position and AST of the real parse() vs the compiled model "
    "on token soups, truncations and mutations of valid expressions; cache-order independence checked on the implementation."
)
ASSUME = [
    "CPython re semantics for the ordered alternation (probed per code point through the compiled pattern)",
    "resource limits of CPython (recursion depth for deeply nested brackets) are outside the model: generated nesting depth <= 40",
    "strings contain Unicode scalar values only (no lone surrogates)",
]

REAL_AXES = {
    "ancestor", "ancestor_or_self", "child", "descendant", "descendant_or_self", "following",
    "following_sibling", "parent", "preceding", "preceding_sibling", "self",
}

VALID = [
    "a", "/a", "//a", "a/b", "./a", "../a", "*", "p:a", "p:*", "/*", "//*[1]", "a[1]", "a[last()]",
    "a[@b]", "a[@p:b]", "a[@b='x']", 'a[@b="x"]', "a[@b!='x']", "a[@b and @c]", "a[@b or @c]",
    "a[not(@b)]", "a[boolean(@b)]", "a[contains(@b,'x')]", "a[starts-with(@b, 'x')]",
    "a[concat('a','b')='ab']", "a[position()=2]", "a[position()<3]", "a[position()>=last()]",
    "a[@b][2]", "a[(@b='1') or (@c='2')]", "a[((@b))]", "text()", "comment()", "node()",
    "processing-instruction()", "processing-instruction('t')", "ancestor::a", "ancestor-or-self::*",
    "child::a", "descendant::a", "descendant-or-self::node()", "following::a", "following-sibling::a",
    "parent::*", "preceding::a", "preceding-sibling::a", "self::a", "a|b", "a | b/c | //d",
    "/a/b[@c='d'][1]/e", "a[@b='x' and position()=1 or @c]", "a[text()='x']", "a/text()", "//a[@href and not(starts-with(@href, 'https://'))]",
    "a['x'=@b]", "a[1=position()]", "//p:a", "//p:*", "//a[@p:b='z']", "//*[@p:b]", "p:a[@p:b]", "//q:a", "//a[@q:b]", "a[@b='it''s']", "a[@b='\\'']", "🔥", "é-a.b", "a[last() - 1]",
]

NAMES = ["a", "foo", "p", "text", "node", "comment", "processing-instruction", "position", "last", "not",
         "contains", "starts-with", "concat", "boolean", "and", "or", "ancestor", "child", "self", "parent",
         "descendant-or-self", "following-sibling", "div", "mod", "tx", "evaluate", "__init__", "__class__",
         "ancestor_or_self", "é", "漢字", "🔥", "a.b", "a-b", "_x", "x1"]
PUNCT = ["/", "//", ".", "..", "*", "::", ":", "[", "]", "(", ")", "@", ",", "|", "=", "!=", "<", "<=", ">", ">=", "+", "-"]
STRINGS = ["'x'", '"y"', "''", "'a\\'b'", '"a\\"b"', "'", '"', "'abc", "'a\\", "'a\\\nb'", "'a\nb'", "'😀'"]
NUMBERS = ["0", "1", "2", "10", "007", "٣", "१२", "1.5", "9" * 30]
SPACES = [" ", "\n", "\t", "  "]
STRAY = ["~", "!", "#", "$", "%", "^", "&", ";", "?", "\\", "{", "}", "`", "\r", "\x0b", " ", " "]


def soup(rng):
    n = rng.randint(1, 14)
    parts = []
    for _ in range(n):
        r = rng.random()
        if r < 0.30:
            parts.append(rng.choice(NAMES))
        elif r < 0.70:
            parts.append(rng.choice(PUNCT))
        elif r < 0.80:
            parts.append(rng.choice(STRINGS))
        elif r < 0.88:
            parts.append(rng.choice(NUMBERS))
        elif r < 0.96:
            parts.append(rng.choice(SPACES))
        else:
            parts.append(rng.choice(STRAY))
    return "".join(parts)


def py_tokens(s):
    """best-effort split of a valid expression into pieces for mutation"""
    from _delb.xpath.tokenizer import tokenize

    try:
        toks = tokenize(s)
    except Exception:  # noqa: BLE001
        return list(s)
    out, last = [], 0
    for t in toks:
        if t.position > last:
            out.append(s[last : t.position])
        out.append(t.string)
        last = t.position + len(t.string)
    if last < len(s):
        out.append(s[last:])
    return out


def mutate(rng, s):
    toks = py_tokens(s)
    r = rng.random()
    if r < 0.25:
        return s[: rng.randint(0, len(s))]
    if r < 0.45 and toks:
        i = rng.randrange(len(toks))
        return "".join(toks[:i] + toks[i + 1 :])
    if r < 0.65:
        i = rng.randint(0, len(toks))
        return "".join(toks[:i] + [rng.choice(PUNCT + NAMES + STRINGS + NUMBERS + STRAY)] + toks[i:])
    if r < 0.85 and toks:
        i = rng.randrange(len(toks))
        return "".join(toks[:i] + [rng.choice(PUNCT + NAMES + STRINGS + NUMBERS)] + toks[i + 1 :])
    if len(toks) >= 2:
        i = rng.randrange(len(toks) - 1)
        toks[i], toks[i + 1] = toks[i + 1], toks[i]
    return "".join(toks)


def nested(rng):
    d = rng.randint(1, 40)
    o = rng.choice(["(", "["])
    c = {"(": ")", "[": "]"}[o]
    inner = rng.choice(["@a", "1", "'x'", "", "@a='1'"])
    s = "a[" + o * d + inner + c * (d - rng.choice([0, 0, 0, 1])) + "]"
    return s


def gen_case(rng):
    r = rng.random()
    if r < 0.35:
        return soup(rng)
    if r < 0.50:
        return rng.choice(VALID)
    if r < 0.90:
        s = rng.choice(VALID)
        for _ in range(rng.choice([1, 1, 2, 3])):
            s = mutate(rng, s)
        return s
    if r < 0.95:
        return nested(rng)
    return rng.choice(VALID) + rng.choice(["|", "/", "//", "[", "]", "(", ")", " ", "::", ":", "@"]) + rng.choice(VALID + [""])


# ------------------------------------------------------------------ AST dump (implementation)
def dump_expr(e):
    from _delb.xpath import ast as A
    from _delb.xpath.parser import OPERATORS

    if isinstance(e, A.AnyValue):
        return ["num", e.value] if isinstance(e.value, int) else ["str", e.value]
    if isinstance(e, A.HasAttribute):
        return ["has", e.prefix, e.local_name]
    if isinstance(e, A.AttributeValue):
        return ["val", e.prefix, e.local_name]
    if isinstance(e, A.Function):
        name = next((k for k, v in A.xpath_functions.items() if v is e.function), "?")
        return ["func", name, [dump_expr(a) for a in e.arguments]]
    if isinstance(e, A.BooleanOperator):
        op = next((k for k, v in OPERATORS.items() if v is e.operator), "?")
        return ["op", op, dump_expr(e.left), dump_expr(e.right)]
    return ["?", type(e).__name__]


def dump_test(t):
    from _delb.xpath import ast as A

    if isinstance(t, A.ProcessingInstructionTest):
        return ["pi", t.target]
    if isinstance(t, A.NodeTypeTest):
        return ["type", t.type_name]
    if isinstance(t, A.AnyNameTest):
        return ["any", t.prefix]
    if isinstance(t, A.NameMatchTest):
        return ["name", t.prefix, t.local_name]
    return ["?", type(t).__name__]


def dump_ast(x):
    out = []
    for p in x.location_paths:
        steps = []
        for s in p.location_steps:
            name = getattr(s.axis.generator, "__name__", None)
            steps.append({
                "axis": name if name in REAL_AXES else "weird",
                "test": dump_test(s.node_test),
                "preds": [dump_expr(e) for e in s.predicates],
            })
        out.append({"abs": bool(p.absolute), "steps": steps})
    return out


def impl_parse(s):
    """Outcome of the real parser and the property verdict for this input; the string is parsed a second time right away
    (parsing is independent of what was parsed before - seeded C16-7: remembered failures re-raised differently)"""
    out, why = _parse_once(s)
    if why is None and out.get("err") in ("parsing", "unsupported"):
        # the entry points that clients use (NodeBase.xpath / Document.xpath) report the same error of the same class
        # (seeded C16-9: the error rebuilt on the way out)
        why = _through_entry_points(s, out)
    if why is None and out.get("err") != "recursion":
        out2, why2 = _parse_once(s)
        if why2 is not None:
            why = "second parse of the same string: " + why2
        elif comparable(out2) != comparable(out) or out2.get("rendered") != out.get("rendered"):
            why = f"second parse of the same string differs: {out2}"
    return out, why


_ENTRY_DOC = []


def _through_entry_points(s, out):
    from delb import Document
    from _delb.exceptions import XPathParsingError, XPathUnsupportedStandardFeature

    if not _ENTRY_DOC:
        _ENTRY_DOC.append(Document("<r><a/></r>"))
    doc = _ENTRY_DOC[0]
    for name, call in (("TagNode.xpath", lambda: doc.root.xpath(s)), ("Document.xpath", lambda: doc.xpath(s))):
        try:
            call()
            return f"{name} accepts an expression that parse() refuses"
        except XPathParsingError as e:
            kind = "unsupported" if isinstance(e, XPathUnsupportedStandardFeature) else "parsing"
            if kind != out["err"] or e.position != out["pos"] or e.expression != s:
                return f"{name} reports another parsing error than parse(): {kind} at {e.position}"
        except RecursionError:
            pass
        except Exception as e:  # noqa: BLE001
            return f"{name} raised {type(e).__name__} for an expression that parse() refuses with a parsing error: {e}"
    return None


def _parse_once(s):
    from _delb.exceptions import XPathParsingError, XPathUnsupportedStandardFeature
    from _delb.xpath.parser import parse

    why = None
    try:
        ast = parse(s)
        out = {"ok": dump_ast(ast)}
    except XPathParsingError as e:
        kind = "unsupported" if isinstance(e, XPathUnsupportedStandardFeature) else "parsing"
        out = {"err": kind, "pos": e.position}
        if e.expression != s:
            why = f"error does not carry the expression: {e.expression!r}"
        elif not isinstance(e.position, int) or not 0 <= e.position <= len(s):
            why = f"position {e.position!r} is not inside the expression (length {len(s)})"
        else:
            try:
                text = str(e)
                if not text or not isinstance(e.message, str) or e.message not in text:
                    why = "message cannot be rendered"
                out["rendered"] = text
                out["msg"] = e.message
            except Exception as r:  # noqa: BLE001
                why = f"rendering the error raised {type(r).__name__}: {r}"
    except RecursionError:
        out = {"err": "recursion"}
    except Exception as e:  # noqa: BLE001
        out = {"err": "py", "kind": type(e).__name__}
        why = f"parse raised {type(e).__name__}: {e}"
    return out, why


def comparable(o):
    if "ok" in o:
        return {"ok": o["ok"]}
    return {k: o[k] for k in ("err", "pos") if k in o}


def check_determinism(run: Run, cases):
    """cached == fresh, independent of the order of earlier parse/evaluate calls"""
    from delb import Document
    from _delb.xpath.parser import parse
    from _delb.xpath.tokenizer import tokenize

    doc = Document("<r a='1'><a b='x'>t<b/></a><a/><!--c--><?t d?></r>")
    nsdoc = Document('<r xmlns:p="urn:p" a="1" p:b="y"><a b="x" p:b="z">t<b/></a><p:a b="1" p:b="1"/><a/><!--c--><?t d?></r>')
    contexts = [None, {"p": "urn:p"}, {"p": "urn:other"}, {"q": "urn:p"}, {"p": "urn:p", "q": "urn:q"}]
    # results are compared by object identity: every node of both documents stays referenced for the whole
    # stream, otherwise a garbage collection between two evaluations may evict an unreferenced wrapper (C04
    # permits that) and the same node comes back as another object (false alarm met on seed 0)
    from _delb.nodes import altered_default_filters
    with altered_default_filters():
        _held = [doc.root, nsdoc.root, *doc.root.iterate_descendants(), *nsdoc.root.iterate_descendants()]  # noqa: F841

    def outcome(expr, ctx):
        try:
            return [id(x) for x in nsdoc.root.xpath(expr, namespaces=ctx)]
        except Exception as e:  # noqa: BLE001
            return type(e).__name__

    rng = run.rng
    sample = [c for c in cases if len(c) < 80]
    rng.shuffle(sample)
    sample = sample[:300]
    ref = {}
    parse.cache_clear()
    tokenize.cache_clear()
    for s in sample:
        ref[s] = comparable(impl_parse(s)[0])
    n = n_ctx = 0
    for rnd in range(3):
        order = sample[:]
        rng.shuffle(order)
        if rnd == 1:
            parse.cache_clear()
        for s in order:
            got = comparable(impl_parse(s)[0])
            n += 1
            if got != ref[s]:
                run.violation("determinism", s, {"first": ref[s], "later": got})
            if "ok" in got and (rng.random() < 0.3 or (rnd == 0 and ":" in s)):
                try:
                    cached = parse(s)
                    before = repr(cached)
                    r1 = [id(x) for x in doc.root.xpath(s)]
                    parse.cache_clear()
                    fresh = parse(s)
                    r2 = [id(x) for x in doc.root.xpath(s)]
                    if r1 != r2:
                        run.violation("determinism", s, "cached and fresh expression evaluate differently")
                    # the cached object, evaluated in between, still equals a fresh parse (by == and by repr)
                    if not (cached == fresh and fresh == cached) or repr(cached) != repr(fresh) or repr(cached) != before:
                        run.violation("determinism", s, "an expression object that was evaluated differs from a fresh parse of the same string")
                except Exception:  # noqa: BLE001  evaluation errors are not C16's business
                    pass
                # evaluations in other namespace contexts before: the cached object must behave like a fresh one
                prefixed = re.search(r"[^:\s]:[^:\s]", s) is not None
                pairs = [(a, b) for a in contexts for b in contexts] if prefixed and rnd == 0 else [(rng.choice(contexts), rng.choice(contexts))]
                n_ctx += len(pairs)
                for c1, c2 in pairs:
                  parse.cache_clear()
                  first = outcome(s, c1)
                  cached_second = outcome(s, c2)
                  parse.cache_clear()
                  fresh_second = outcome(s, c2)
                  if cached_second != fresh_second:
                    run.violation("determinism", s, {"why": "an expression that was evaluated in another namespace context before evaluates differently from a fresh parse",
                                                     "contexts": [c1, c2], "first": first if isinstance(first, str) else len(first),
                                                     "cached": cached_second if isinstance(cached_second, str) else len(cached_second),
                                                     "fresh": fresh_second if isinstance(fresh_second, str) else len(fresh_second)})
    run.count("determinism", n)
    run.count("determinism-context-pairs", n_ctx)


def is_known(s: str) -> str | None:
    for f in common.known_findings("C16"):
        if f.get("status") == "open" and f.get("replay") == s:
            return f["key"]
    return None


def run_cases(run: Run, cases, stream, lean_ok=True):
    outs = [impl_parse(s) for s in cases]
    models = run_driver([{"cmd": "parse", "s": s} for s in cases]) if lean_ok else [None] * len(cases)
    for s, (out, why), m in zip(cases, outs, models):
        run.case(stream, s, "err" in out or len(s) > 3)
        run.count("outcome", out.get("err", "ok"))
        if out.get("err") == "recursion":
            continue
        known = is_known(s)
        if why and not known:
            run.violation(stream, s, why)
        if m is None or known:
            continue
        if "driver_error" in m:
            raise common.ToolFailure(f"driver: {m}")
        if m.get("err") in ("py", "fuel"):
            run.mismatch(stream, s, out, m, "Lean model reaches a Python-error/fuel outcome (theorem says impossible)")
        elif comparable(out) != comparable(m):
            run.mismatch(stream, s, out, m)
        elif "rendered" in out and "rendered" in m and out.get("msg") == m.get("msg") and out["rendered"] != m["rendered"]:
            run.mismatch(stream, s, out["rendered"], m["rendered"], "XPathParsingError.__str__ differs from renderError")


def corpus():
    return ["/", "]", "tx()", "a(b)", "a[<]", "a[not(@b,)]", "a[" + "9" * 4301 + "]", "a[" + "9" * 4300 + "]", "", " ",
            "a/", "a|", "|a", "a[]", "a[1 =]", "a[= 1]", "[", "a[(]", "a)", "processing-instruction(foo)",
            "processing-instruction((x))", "a[f()]", "a[position(1,2)]", "a[concat()]", "a[contains('a')]",
            "evaluate::a", "__class__::a", "ancestor_or_self::a", "__hash__::a", "generator::a", "a[.]", "a[..]",
            "@a", "a/@b", "a::", "::a", "a:b:c", "a[1][2][3]", "a[@b=@c]", "a or b", "'abc'", "1", "a[1 2]",
            "a['x' 'y']", "//", "///a", "a//", ".a", "a.", "a..b", "a[@b='x\\", "a\r", "a[ ]"]


def check(run: Run, lean: dict) -> int:
    n = run.budget(6000, 150000)
    run.extra["rule"] = (
        "token soups from the XPath vocabulary, valid expressions, truncations / single- and multi-token mutations of them, "
        "nested and unbalanced brackets, unknown functions/axes/node tests, stray and non-ASCII characters; non-trivial = "
        "rejected or longer than 3 characters; every case: outcome class + position + AST vs the Lean model, and the property "
        "itself (only XPathParsingError escapes, position inside, renderable); 300 cases re-parsed in random orders with "
        "cold/warm caches"
    )
    ok = lean.get("driver_ok", True)
    for f in common.known_findings("C16"):
        if f.get("status") != "open":
            continue
        _, why = impl_parse(f["replay"])
        if why:
            print(f"KNOWN-FINDING: property=C16 {f['key']}: {f['description']}")
            run.known_hit.append(f["key"])
    cases = [gen_case(run.rng) for _ in range(n)]
    run_cases(run, corpus(), "corpus", ok)
    run_cases(run, cases, "generated", ok)
    check_determinism(run, corpus() + cases)
    return run.finish(lean, LEVEL, ASSUME, search=search)


def search(run: Run):
    cands = [m["case"] for m in run.mismatches if isinstance(m["case"], str)] + corpus()
    cands += [gen_case(run.rng) for _ in range(100000)]
    for s in cands:
        if is_known(s):
            continue
        out, why = impl_parse(s)
        if why:
            return [{"case": shrink(s), "detail": why}]
    return None


def shrink(s):
    def fails(x):
        return impl_parse(x)[1] is not None

    cur = s
    changed = True
    while changed and len(cur) > 1:
        changed = False
        for i in range(len(cur)):
            cand = cur[:i] + cur[i + 1 :]
            if fails(cand):
                cur, changed = cand, True
                break
    return cur


def replay(payload: dict) -> int:
    bad = 0
    for f in payload.get("failing", []):
        out, why = impl_parse(f["case"])
        print(json.dumps({"case": f["case"], "outcome": out, "oracle": why}, ensure_ascii=False))
        bad += bool(why)
    return 1 if bad else 0

"""C19 - wrapped text fills lines greedily up to the requested width."""

from __future__ import annotations

import common
from common import Run, run_driver

LEVEL = (
    "Lean theorems: `_wrap_text` model = greedy fill over the word list for every width >= 1 "
    "and every word sequence (c19_wrap_eq_greedy), with the corollaries partition / width / "
    "greediness / indentation; correspondence: real TextWrappingSerializer output for an "
    "element holding only text vs the Lean model's lines, exact string equality."
)
ASSUME = [
    "model covers an element whose only child is text and which does not fit the line inline (7+len>width)",
    "text is crunched and escaped by the serializer before wrapping; the harness applies the same escaping independently",
    "str.rfind/find semantics as modelled in Model/Wrap.lean",
]

ALPHABETS = [
    "abcdefghij",
    "abcäöüßéè",
    "漢字仮名交じり文",
    "ab&<>\"'",
    "x-_.:;,!?",
    "😀🔥ab",
]


def esc(s: str) -> str:
    return s.replace("&", "&amp;").replace("<", "&lt;").replace(">", "&gt;")


def py_greedy(words, w):
    lines, cur = [], None
    for wd in words:
        if cur is None:
            cur = wd
        elif len(cur) + 1 + len(wd) <= w:
            cur += " " + wd
        else:
            lines.append(cur)
            cur = wd
    if cur is not None:
        lines.append(cur)
    return lines


def gen_case(rng, i, tier):
    w = rng.choice([1, 2, 3, 4, 5, 7, 8, 10, 11, 13, 17, 20, 30, 40]) if rng.random() < 0.8 else rng.choice([rng.randint(1, 60), rng.randint(61, 200)])
    alpha = rng.choice(ALPHABETS)
    n = rng.randint(1, 12 if tier == "quick" else 40)
    words = []
    for _ in range(n):
        r = rng.random()
        if r < 0.25:
            ln = rng.randint(1, 3)
        elif r < 0.6:
            ln = max(1, w + rng.choice([-2, -1, 0, 1, 2]))
        elif r < 0.8:
            ln = max(1, w // 2 + rng.choice([-1, 0, 1]))
        else:
            ln = rng.randint(w + 1, w + 12)
        words.append("".join(rng.choice(alpha) for _ in range(ln)))
    # sometimes make the whole text fit exactly or nearly (the "fits"/"perfect fit" branches)
    if rng.random() < 0.15:
        words = words[: rng.randint(1, 3)]
    indent = rng.choice(["", " ", "  ", "\t", " \t"])
    depth = rng.randint(0, 3) if rng.random() < 0.9 else rng.randint(4, 8)
    # the text in one node, split in the middle into two chained nodes, or split at word boundaries into several
    # nodes with whitespace on both sides of every seam ("aa ", " b cc")
    chained = rng.choice([False, False, False, False, True, True, "seams", "seams"])
    # whitespace before the first / after the last word (an unreduced tree): it is dropped, the lines are the same
    pad = rng.choice(["", "", "", "lead", "trail", "both"])
    if pad in ("lead", "both") and rng.random() < 0.5 and len(words) > 2:
        # the greedy first line is exactly as long as the width (seeded C19-7: leading space counted as a column)
        a, b = rng.randint(1, max(1, w // 2)), rng.randint(1, max(1, w // 2))
        if a + 1 + b <= w:
            words[0], words[1] = words[0][:1] * a, (words[1][:1] * (w - a - 1)) or "x"
    # attributes on the element (also in the xml namespace: their prefix counts when the element is measured against the
    # line - seeded C19-8)
    attrs = rng.choice([None, None, None, "plain", "xml", "xml", "both"])
    # ... or the element itself in a namespace that is written with a (generated) prefix (seeded C19-9)
    pns = depth >= 1 and rng.random() < 0.25
    case = {"w": w, "words": words, "indent": indent, "depth": depth, "chained": chained, "pad": pad, "attrs": attrs, "pns": pns}
    if (attrs or pns) and rng.random() < 0.6 and not chained and not pad:
        # the one-line form is 1-6 columns too long for the line
        text = esc(" ".join(words))
        case["w"] = max(1, overhead(case) + len(text) - rng.randint(1, 6))
    return case


XML_NS = "http://www.w3.org/XML/1998/namespace"
ATTRS = {None: [], "plain": [("", "n", "1")], "xml": [(XML_NS, "id", "p1")], "both": [("", "n", "1"), (XML_NS, "lang", "en")]}


def stag(case) -> str:
    """the start tag of the element as it is written (attributes sorted by namespace and name; the xml prefix needs no
    declaration)"""
    at = sorted(ATTRS[case.get("attrs")])
    return "<" + qname(case) + "".join(' %s%s="%s"' % ("xml:" if ns else "", name, v) for ns, name, v in at) + ">"


def qname(case) -> str:
    """the element sits in a namespace of its own below roots in no namespace: it is written with the generated prefix"""
    return "ns0:p" if case.get("pns") and case["depth"] >= 1 else "p"


def overhead(case) -> int:
    return len(stag(case)) + len("</%s>" % qname(case))


def pieces(case):
    """contents of the text nodes the element's text is held in"""
    out = _pieces(case)
    pad = case.get("pad", "")
    if pad in ("lead", "both"):
        out[0] = [" ", "\n  ", "\t"][len(case["words"]) % 3] + out[0]
    if pad in ("trail", "both"):
        out[-1] = out[-1] + [" ", "\n", "  "][len(case["words"]) % 3]
    return out


def _pieces(case):
    words = case["words"]
    text = " ".join(words)
    if case["chained"] == "seams" and len(words) > 1:
        cut = sorted({1 + (i * 7 + len(words)) % (len(words) - 1) for i in range(min(3, len(words) - 1))})
        out, start = [], 0
        for j, c in enumerate(cut + [len(words)]):
            part = " ".join(words[start:c])
            if start:
                part = [" ", "\n", "\t "][j % 3] + part
            if c < len(words):
                part += [" ", "  ", "\n"][j % 3]
            out.append(part)
            start = c
        return out
    if case["chained"] and len(text) > 2:
        k = len(text) // 2
        return [text[:k], text[k:]]
    return [text]


def build(case):
    """Build <n0><n1>..<p>text</p>..</n1></n0> with the real API; return (root, p)."""
    from delb import new_tag_node

    text = " ".join(case["words"])
    p = new_tag_node("p", namespace="urn:n" if case.get("pns") and case["depth"] >= 1 else None, attributes={(ns, name): v for ns, name, v in ATTRS[case.get("attrs")]})
    p.append_children(*pieces(case))
    node = p
    for d in range(case["depth"], 0, -1):
        parent = new_tag_node(f"n{d}")
        parent.append_children(node)
        node = parent
    return node, p


def impl_output(case):
    from delb import FormatOptions

    root, _ = build(case)
    return root.serialize(
        format_options=FormatOptions(align_attributes=False, indentation=case["indent"], width=case["w"])
    )


def body_rows(case, out):
    """The rows between the `<p>` row and the row holding `</p>` (C19 is about these only;
    the layout around them belongs to C03/C18)."""
    ind, d = case["indent"], case["depth"]
    rows = out.split("\n")
    try:
        a = rows.index(ind * d + stag(case))
    except ValueError:
        return None
    for b in range(a + 1, len(rows)):
        if rows[b].startswith(ind * d + "</%s>" % qname(case)):
            return rows[a + 1 : b]
    return None


def property_oracle(case, out):
    """The property itself, stated on the implementation's output. Returns None or a reason."""
    ind, d, w = case["indent"], case["depth"], case["w"]
    etext = esc(" ".join(case["words"]))
    body = body_rows(case, out)
    if body is None:
        return f"element not written in wrapped form: {out!r}"
    prefix = ind * (d + 1)
    contents = []
    for r in body:
        if not r.startswith(prefix):
            return f"text line {r!r} does not carry the indentation {prefix!r}"
        contents.append(r[len(prefix):])
    if " ".join(contents) != etext:
        return "words were split, joined, reordered or lost"
    for c in contents:
        if c == "" or c.startswith(" ") or c.endswith(" "):
            return f"line {c!r} is not a run of whole words"
        if len(c) > w and " " in c:
            return f"line {c!r} longer than width {w} although breakable"
    for c1, c2 in zip(contents, contents[1:]):
        if len(c1) + 1 + len(c2.split(" ")[0]) <= w:
            return f"line {c1!r} is shorter than necessary: {c2.split(' ')[0]!r} would have fitted"
    return None


def boundary_space(case) -> bool:
    """open finding `chained-text-space-at-boundary`: the text is held in several text nodes with whitespace at a seam, and
    the element would fit the line if that whitespace did not count (the measuring strips it per node, up to two
    characters per node) although it does not fit in fact"""
    ps = pieces(case)
    if len(ps) < 2 or not any(a[-1:].isspace() or b[:1].isspace() for a, b in zip(ps, ps[1:])):
        return False
    etext = esc(" ".join(case["words"]))
    ind, d = case["indent"], case["depth"]
    return overhead(case) + len(etext) - 2 * len(ps) <= case["w"] - 0


def is_known(case) -> str | None:
    for f in common.known_findings("C19"):
        if f.get("status") != "open":
            continue
        if f["key"] == "perfect-fit-unindented":
            if len(esc(" ".join(case["words"]))) == case["w"] and case["indent"] != "":
                return f["key"]
        if f["key"] == "chained-text-space-at-boundary" and boundary_space(case):
            return f["key"]
    return None


def run_cases(run: Run, cases, stream, lean_ok=True):
    outs = []
    for c in cases:
        try:
            outs.append(("ok", impl_output(c)))
        except Exception as e:  # noqa: BLE001
            outs.append(("exc", f"{type(e).__name__}: {e}"))
    reqs = [
        {"cmd": "wrap", "w": c["w"], "indent": c["indent"], "depth": c["depth"], "text": esc(" ".join(c["words"]))}
        for c in cases
    ]
    models = run_driver(reqs) if lean_ok else [None] * len(cases)
    for c, (st, out), m in zip(cases, outs, models):
        etext = esc(" ".join(c["words"]))
        nontrivial = len(etext) > c["w"]
        run.case(stream, c, nontrivial)
        run.count("width", c["w"])
        run.count("indent", repr(c["indent"]))
        run.count("depth", c["depth"])
        known = is_known(c)
        if st == "exc":
            run.violation(stream, c, f"serialize raised {out}")
            continue
        why = property_oracle(c, out)
        if why and not known:
            run.violation(stream, c, {"why": why, "output": out})
        if m is None:
            continue
        exp = m["lines"]
        out = body_rows(c, out)
        run.count("lines", min(len(m["lines"]), 9))
        run.count("branch", "over-lines" if len(etext) > c["w"] else ("perfect" if len(etext) == c["w"] else "fits"))
        if m["wrap"] != m["greedy"] or m["greedy"] != py_greedy(esc(" ".join(c["words"])).split(" "), c["w"]):
            run.mismatch(stream, c, None, m, "Lean wrapText != greedy specification")
        if out != exp and not known:
            run.mismatch(stream, c, out, exp)


def fixed_cases():
    base = {"indent": "\t", "depth": 1, "chained": False}
    return [
        dict(base, w=1, words=["w"]),  # perfect fit (known finding / fixed regression)
        dict(base, w=5, words=["ab", "cd"]),
        dict(base, w=5, words=["ab", "cd", "efghijk", "l"]),
        dict(base, w=3, words=["a&b"]),
        dict(base, w=10, words=["x" * 11, "y" * 10, "z" * 9]),
        dict(base, w=11, words=["Die", "Entdeckung", "Amerika’s,", "die"]),
    ]


def check(run: Run, lean: dict) -> int:
    n = run.budget(1500, 40000)
    run.extra["rule"] = (
        "seeded word sequences (lengths around width, width+-1, longer than width; ASCII, non-ASCII, "
        "astral and escaped characters) x width x indentation x depth 0-3 x chained/unchained text; "
        "only texts with 7+len(escaped) > width (element cannot be placed inline); non-trivial = text longer than width"
    )
    cases = []
    while len(cases) < n:
        c = gen_case(run.rng, len(cases), run.tier)
        if overhead(c) + len(esc(" ".join(c["words"]))) > c["w"]:
            cases.append(c)
    # known findings are replayed as their own cases
    for f in common.known_findings("C19"):
        if f.get("status") != "open":
            continue
        out = impl_output(f["replay"])
        why = property_oracle(f["replay"], out)
        if why:
            print(f"KNOWN-FINDING: property=C19 {f['key']}: {f['description']}")
            run.known_hit.append(f["key"])
        else:
            run.notes.append(f"known finding {f['key']} no longer reproduces")
    run_cases(run, fixed_cases(), "corpus", lean.get("driver_ok", True))
    run_cases(run, cases, "generated", lean.get("driver_ok", True))
    return run.finish(lean, LEVEL, ASSUME, search=search)


def search(run: Run):
    """Failing-input search: implementation vs the property oracle, larger budget."""
    rng = run.rng
    cands = [m["case"] for m in run.mismatches]
    for _ in range(20000):
        c = gen_case(rng, 0, "thorough")
        if overhead(c) + len(esc(" ".join(c["words"]))) > c["w"]:
            cands.append(c)
    for c in cands:
        if is_known(c):
            continue
        try:
            out = impl_output(c)
        except Exception as e:  # noqa: BLE001
            return [{"case": c, "detail": f"serialize raised {type(e).__name__}: {e}"}]
        why = property_oracle(c, out)
        if why:
            return [{"case": shrink(c), "detail": why}]
    return None


def shrink(c):
    def fails(x):
        if overhead(x) + len(esc(" ".join(x["words"]))) <= x["w"] or not x["words"]:
            return False
        try:
            return property_oracle(x, impl_output(x)) is not None
        except Exception:  # noqa: BLE001
            return True

    cur = dict(c)
    changed = True
    while changed:
        changed = False
        for i in range(len(cur["words"])):
            cand = dict(cur, words=cur["words"][:i] + cur["words"][i + 1 :])
            if fails(cand):
                cur, changed = cand, True
                break
        for key, val in (("depth", 0), ("chained", False)):
            if cur[key] != val:
                cand = dict(cur, **{key: val})
                if fails(cand):
                    cur, changed = cand, True
    return cur


def replay(payload: dict) -> int:
    bad = 0
    for f in payload.get("failing", []):
        c = f["case"]
        out = impl_output(c)
        why = property_oracle(c, out)
        print(json_dump({"case": c, "output": out, "oracle": why}))
        bad += bool(why)
    return 1 if bad else 0


def json_dump(x):
    import json

    return json.dumps(x, ensure_ascii=False)

"""C05 - all navigation relations describe one and the same ordered tree."""

from __future__ import annotations

import copy
import gc
import json

import common
import edits as E
from common import Run, run_driver

LEVEL = (
    "Lean theorems (Props/C05.lean): walking the slot/chain encoding with the models of iterate_children's start, "
    "_fetch_following_sibling and fetch_preceding_sibling enumerates exactly the visible child list in order (so index, "
    "len, item access, first/last child agree and following/preceding sibling are inverse); the explicit-stack loop of "
    "iterate_descendants yields the pre-order; ancestors/depth, following/preceding (delb's reading) partition the "
    "document order; the traversers are permutations in their documented orders. Correspondence: every relation of every "
    "node of the forests reached by random edit histories, evaluated on the real objects, vs the compiled Lean model and "
    "vs an independent Python computation on the plain-tree mirror; filtered iterators vs restricted unfiltered ones."
)
ASSUME = [
    "relations are evaluated without ambient default filters unless the filter is the subject (type filters)",
    "trees are those reachable by Legal edit histories (C01); every node is referenced by the harness",
]


# ------------------------------------------------------------------ independent expectations (mirror)
def preorder(t):
    out = [t]
    for k in E.kids(t):
        out += preorder(k)
    return out


def expected(root):
    """relations of every node of a mirror tree, as id lists"""
    rows = {}
    order = preorder(root)
    pos = {E.tid(n): i for i, n in enumerate(order)}

    def rec(n, path, parent, anc):
        ks = E.kids(n)
        sub = preorder(n)[1:]
        i = pos[E.tid(n)]
        end = i + len(sub)
        idx = path[-1] if path else None
        sibs = E.kids(parent) if parent is not None else []
        rows[E.tid(n)] = {
            "path": list(path),
            "children": [E.tid(k) for k in ks],
            "parent": E.tid(parent) if parent is not None else None,
            "index": idx,
            "next": E.tid(sibs[idx + 1]) if parent is not None and idx + 1 < len(sibs) else None,
            "prev": E.tid(sibs[idx - 1]) if parent is not None and idx > 0 else None,
            "ancestors": [E.tid(a) for a in anc],
            "depth": len(anc),
            "descendants": [E.tid(x) for x in sub],
            "following": [E.tid(x) for x in order[i + 1 :]],
            "preceding": [E.tid(x) for x in reversed(order[:i])],
            "following_strict": [E.tid(x) for x in order[end + 1 :]],
            "last_descendant": E.tid(sub[-1]) if sub else None,
            "full_text": "".join(x[2] for x in [n] + sub if x[0] == "x"),
            "kind": n[0],
        }
        for j, k in enumerate(ks):
            rec(k, path + (j,), n, [n] + anc)

    rec(root, (), None, [])
    return rows, [E.tid(n) for n in order]


def bf(t):
    out, queue = [E.tid(t)], list(E.kids(t))
    while queue:
        n = queue.pop(0)
        out.append(E.tid(n))
        queue.extend(E.kids(n))
    return out


def post(t):
    out = []
    for k in E.kids(t):
        out += post(k)
    return out + [E.tid(t)]


# ------------------------------------------------------------------ implementation side
def impl_rows(world: E.World, root_obj):
    from delb import (altered_default_filters, get_traverser, is_comment_node, is_processing_instruction_node,
                      is_tag_node, is_text_node, TagNode)

    h = lambda o: None if o is None else world.handle.get(id(o), -1)  # noqa: E731
    hs = lambda it: [h(o) for o in it]  # noqa: E731
    rows = {}
    problems = []
    with altered_default_filters():
        nodes = [root_obj] + list(root_obj.iterate_descendants())
        for n in nodes:
            r = {}
            try:
                r["children"] = hs(n.iterate_children())
                r["parent"] = h(n.parent)
                r["index"] = n.index
                r["next"] = h(n.fetch_following_sibling())
                r["prev"] = h(n.fetch_preceding_sibling())
                r["ancestors"] = hs(n.iterate_ancestors())
                r["depth"] = n.depth
                r["descendants"] = hs(n.iterate_descendants())
                r["following"] = hs(n.iterate_following())
                r["preceding"] = hs(n.iterate_preceding())
                r["last_descendant"] = h(n.last_descendant)
                r["full_text"] = n.full_text
                r["first_child"] = h(n.first_child)
                r["last_child"] = h(n.last_child)
                r["next_sibs"] = hs(n.iterate_following_siblings())
                r["prev_sibs"] = hs(n.iterate_preceding_siblings())
                if isinstance(n, TagNode):
                    r["len"] = len(n)
                    r["items"] = [h(n[i]) for i in range(len(n))]
                    r["neg_items"] = [h(n[-i - 1]) for i in range(len(n))]
                    r["contains"] = all(c in n for c in n.iterate_children())
                    r["bf"] = hs(get_traverser(from_left=True, depth_first=False, from_top=True)(n))
                    r["df"] = hs(get_traverser(from_left=True, depth_first=True, from_top=True)(n))
                    r["post"] = hs(get_traverser(from_left=True, depth_first=True, from_top=False)(n))
                # filters: the filtered iterator is the restriction of the unfiltered one
                # type filters and filters that tell nodes of one kind apart (by name, by being a root, by identity): a
                # nearer node may fail where a farther one passes (seeded C05-8: the ancestor walk stopping at the first
                # ancestor that fails the filter)
                for name, f in (("t", is_tag_node), ("x", is_text_node), ("c", is_comment_node), ("p", is_processing_instruction_node),
                                ("name", lambda o: getattr(o, "local_name", "") in ("r", "a", "x")),
                                ("root", lambda o: o.parent is None),
                                ("even", lambda o: (world.handle.get(id(o)) or 0) % 2 == 0)):
                    for rel, unf in (("children", n.iterate_children), ("descendants", n.iterate_descendants),
                                     ("following", n.iterate_following), ("preceding", n.iterate_preceding),
                                     ("next_sibs", n.iterate_following_siblings), ("prev_sibs", n.iterate_preceding_siblings),
                                     ("ancestors", n.iterate_ancestors)):
                        got = hs(unf(f))
                        want = [h(o) for o in unf() if f(o)]
                        if got != want:
                            problems.append({"node": h(n), "relation": rel, "filter": name, "filtered": got, "restricted": want})
                    if isinstance(n, TagNode):
                        # the traversers take filters too: the unfiltered traversal restricted to matching nodes
                        for tname, kw in (("bf", dict(from_left=True, depth_first=False, from_top=True)),
                                          ("df", dict(from_left=True, depth_first=True, from_top=True)),
                                          ("post", dict(from_left=True, depth_first=True, from_top=False))):
                            tr = get_traverser(**kw)
                            got = hs(tr(n, f))
                            want = [h(o) for o in tr(n) if f(o)]
                            if got != want:
                                problems.append({"node": h(n), "relation": "traverser " + tname, "filter": name, "filtered": got, "restricted": want})
                    ff = n.fetch_following_sibling(f)
                    want = next((o for o in n.iterate_following_siblings() if f(o)), None)
                    if ff is not want:
                        problems.append({"node": h(n), "relation": "fetch_following_sibling", "filter": name})
                    fp = n.fetch_preceding_sibling(f)
                    want = next((o for o in n.iterate_preceding_siblings() if f(o)), None)
                    if fp is not want:
                        problems.append({"node": h(n), "relation": "fetch_preceding_sibling", "filter": name})
            except Exception as e:  # noqa: BLE001
                problems.append({"node": h(n), "raised": f"{type(e).__name__}: {e}"})
            rows[h(n)] = r
    # the same relations under ambient default filters (the library's default, and type filters set by the caller): each is
    # the unfiltered relation restricted to the nodes the ambient filters let through - for start nodes of every kind,
    # also those the filters hide
    import contextlib
    from delb import is_comment_node as _isc, is_tag_node as _ist, is_text_node as _isx

    by_handle = {h(n): n for n in nodes}
    for amb_name, ctx, pred in (
        ("library default", contextlib.nullcontext, lambda o: _ist(o) or _isx(o)),
        ("comments only", lambda: altered_default_filters(_isc), _isc),
        ("tags only", lambda: altered_default_filters(_ist), _ist),
    ):
        for n in nodes:
            r = rows.get(h(n)) or {}
            try:
                with ctx():
                    got = {
                        "children": hs(n.iterate_children()), "descendants": hs(n.iterate_descendants()),
                        "following": hs(n.iterate_following()), "preceding": hs(n.iterate_preceding()),
                        "next_sibs": hs(n.iterate_following_siblings()), "prev_sibs": hs(n.iterate_preceding_siblings()),
                    }  # (the ancestor axis is not subject to the default filters)
                    ff, fp = h(n.fetch_following()), h(n.fetch_preceding())
                for rel, g in got.items():
                    want = [i for i in r.get(rel, []) if pred(by_handle[i])]
                    if g != want:
                        problems.append({"node": h(n), "relation": rel, "ambient": amb_name, "filtered": g, "restricted": want})
                if ff != next((i for i in r.get("following", []) if pred(by_handle[i])), None):
                    problems.append({"node": h(n), "relation": "fetch_following", "ambient": amb_name})
                if fp != next((i for i in r.get("preceding", []) if pred(by_handle[i])), None):
                    problems.append({"node": h(n), "relation": "fetch_preceding", "ambient": amb_name})
            except Exception as e:  # noqa: BLE001
                problems.append({"node": h(n), "ambient": amb_name, "raised": f"{type(e).__name__}: {e}"})
    return rows, problems


def check_world(run: Run, stream, case, world: E.World, mirror: E.Mirror, lean_ok, reqs):
    from delb import TagNode, altered_default_filters
    from _delb.utils import _sort_nodes_in_document_order

    for root_obj in world.roots():
        rid = world.handle.get(id(root_obj))
        mt = next((t for t in mirror.groups if t is not None and E.tid(t) == rid), None)
        if mt is None:
            continue
        exp, order = expected(mt)
        rows, problems = impl_rows(world, root_obj)
        run.count("tree size", min(len(order), 40) // 5 * 5)
        for pr in problems:
            run.violation(stream, case, pr)
        for nid, e in exp.items():
            r = rows.get(nid)
            if r is None:
                run.violation(stream, case, {"node": nid, "why": "node not reached from its root"})
                continue
            for key in ("children", "parent", "index", "next", "prev", "ancestors", "depth", "descendants",
                        "following", "preceding", "last_descendant", "full_text"):
                if key in r and r[key] != e[key]:
                    run.violation(stream, case, {"node": nid, "relation": key, "impl": r[key], "tree": e[key]})
            ch = e["children"]
            if r.get("first_child") != (ch[0] if ch else None) or r.get("last_child") != (ch[-1] if ch else None):
                run.violation(stream, case, {"node": nid, "relation": "first/last child", "impl": [r.get("first_child"), r.get("last_child")], "tree": ch})
            if e["kind"] == "t":
                if r.get("len") != len(ch) or r.get("items") != ch or r.get("neg_items") != ch[::-1] or not r.get("contains"):
                    run.violation(stream, case, {"node": nid, "relation": "len/item access", "impl": r, "tree": ch})
                node_tree = _node(mt, e["path"])
                if r.get("bf") != bf(node_tree) or r.get("df") != [nid] + e["descendants"] or r.get("post") != post(node_tree):
                    run.violation(stream, case, {"node": nid, "relation": "traversers", "impl": {k: r.get(k) for k in ("bf", "df", "post")}})
            # partition of the document order (delb's reading: following has descendants, preceding has ancestors)
            if list(reversed(e["preceding"])) + [nid] + e["following"] != order:
                raise common.ToolFailure("harness expectation inconsistent")
        # document-order sort of a random subset of tag nodes
        if isinstance(root_obj, TagNode):
            with altered_default_filters():
                tags = [o for o in [root_obj] + list(root_obj.iterate_descendants()) if isinstance(o, TagNode)]
            sub = [o for o in tags if run.rng.random() < 0.6]
            run.rng.shuffle(sub)
            # the signature takes any iterable: lists, tuples and one-shot iterators alike
            arg = run.rng.choice([lambda x: x, tuple, iter, reversed, lambda x: (o for o in x)])(sub)
            if not isinstance(arg, (list, tuple)):
                sub = list(reversed(sub)) if type(arg).__name__ == "list_reverseiterator" else sub
            try:
                got = [world.handle.get(id(o)) for o in _sort_nodes_in_document_order(arg)]
                want = [i for i in order if i in {world.handle.get(id(o)) for o in sub}]
                if got != want:
                    run.violation(stream, case, {"relation": "document order sort", "impl": got, "tree": want})
            except Exception as ex:  # noqa: BLE001
                run.violation(stream, case, {"relation": "document order sort", "raised": f"{type(ex).__name__}: {ex}"})
        if lean_ok and mt[0] == "t":
            reqs.append((case, mt, rows))
            if len(order) <= 60:
                for kinds in run.rng.sample(KIND_SETS, 2):
                    FILTERED.append((case, mt, kinds, filtered_rows(world, root_obj, kinds)))


KIND_SETS = [["tag", "text"], ["text"], ["tag"], ["tag", "text", "comment", "pi"], ["comment", "pi"], ["tag", "comment"], []]
FILTERED: list = []


def filtered_rows(world: E.World, root_obj, kinds):
    """what the navigation API answers for every node of the tree while the default filters pass exactly the node kinds
    `kinds` - compared with the filtered navigation model (Model/NavFilter.lean, theorems c05_filtered_*)"""
    from delb import (TagNode, altered_default_filters, any_of, is_comment_node, is_processing_instruction_node, is_tag_node,
                      is_text_node)
    from _delb.exceptions import InvalidCodePath

    table = {"tag": is_tag_node, "text": is_text_node, "comment": is_comment_node, "pi": is_processing_instruction_node}
    flt = any_of(*[table[k] for k in kinds]) if kinds else (lambda n: False)
    H = lambda x: None if x is None else world.handle.get(id(x))  # noqa: E731
    L = lambda it: [world.handle.get(id(x)) for x in it]  # noqa: E731
    nodes = []

    def walk(node, path):
        nodes.append((path, node))
        if isinstance(node, TagNode):
            with altered_default_filters():
                kids = list(node.iterate_children())
            for i, k in enumerate(kids):
                walk(k, path + [i])

    walk(root_obj, [])
    out = {}
    for path, n in nodes:
        py = {}
        try:
            with altered_default_filters(flt):
                py["children"] = L(n.iterate_children())
                py["descendants"] = L(n.iterate_descendants())
                py["following_siblings"] = L(n.iterate_following_siblings())
                py["preceding_siblings"] = L(n.iterate_preceding_siblings())
                py["following_sibling"] = H(n.fetch_following_sibling())
                py["preceding_sibling"] = H(n.fetch_preceding_sibling())
                py["following"] = L(n.iterate_following())
                py["preceding"] = L(n.iterate_preceding())
                py["first_child"], py["last_child"] = H(n.first_child), H(n.last_child)
                py["last_descendant"] = H(n.last_descendant)
                if isinstance(n, TagNode):
                    py["len"] = len(n)
                    items = []
                    for i in range(len(n) + 1):
                        try:
                            items.append(H(n[i]))
                        except IndexError:
                            items.append(None)
                    py["items"] = items
                    try:
                        py["item_last"] = H(n[-1])
                    except IndexError:
                        py["item_last"] = None
                try:
                    py["index"] = n.index
                except InvalidCodePath:
                    py["index"] = None
            with altered_default_filters():
                py["ancestors"] = L(n.iterate_ancestors(flt))
        except Exception as ex:  # noqa: BLE001
            py = {"raised": f"{type(ex).__name__}: {ex}"}
        out[tuple(path)] = py
    return out


def compare_filtered(run: Run):
    if not FILTERED:
        return
    answers = run_driver([{"cmd": "nav_filtered", "tree": mt, "kinds": kinds} for _, mt, kinds, _ in FILTERED])
    n = 0
    for (case, mt, kinds, rows), m in zip(FILTERED, answers):
        if "driver_error" in m or "nodes" not in m:
            raise common.ToolFailure(str(m)[:500])
        for r in m["nodes"]:
            py = rows.get(tuple(r["path"]))
            if py is None:
                continue
            if "raised" in py:
                run.mismatch("filtered-model", case, py, {"kinds": kinds, "path": r["path"]}, "navigation under filters raised")
                continue
            for k, v in py.items():
                n += 1
                if r.get(k) != v:
                    run.mismatch("filtered-model", case, {"kinds": kinds, "path": r["path"], k: v}, {k: r.get(k)},
                                 "navigation under default filters differs from the filtered model")
    run.count("filtered-model", "relations compared x%d" % (n // 1000 * 1000))
    run.extra["filtered_model_relations"] = n
    FILTERED.clear()


def _node(t, path):
    for i in path:
        t = t[5][i]
    return t


def run_one(run: Run, stream, xml, seed_ops, length, lean_ok, reqs):
    gc.disable()
    try:
        world = E.World(xml)
        mirror = E.initial_mirror(world)
        ops = []
        for step in range(length if seed_ops is None else len(seed_ops)):
            op = E.gen_op(run.rng, mirror) if seed_ops is None else seed_ops[step]
            if "create" in op:
                world.create(op["create"], mirror.create(op["create"]))
            else:
                try:
                    mirror.apply(copy.deepcopy(op))
                except E.Rejected:
                    break
                err, _ = world.apply(op)
                if err:
                    break  # C01's business
            ops.append(op)
            got = world.dump(mirror)
            for nid in list(world.objs):
                if nid not in mirror.all_ids():
                    world.forget(nid)
            if got != mirror.live():
                break  # C01's business
        case = {"xml": xml, "ops": ops}
        run.case(stream, case, len(ops) >= 3)
        check_world(run, stream, case, world, mirror, lean_ok, reqs)
        return case
    finally:
        gc.enable()


def compare_with_model(run: Run, reqs):
    if not reqs:
        return
    answers = run_driver([{"cmd": "nav", "tree": mt} for _, mt, _ in reqs])
    for (case, mt, rows), m in zip(reqs, answers):
        if "driver_error" in m:
            raise common.ToolFailure(str(m))
        for node in m["nodes"]:
            r = rows.get(node["id"])
            if r is None:
                continue
            pairs = [("children", node["children"]), ("ancestors", node["ancestors"]), ("depth", node["depth"]),
                     ("descendants", node["descendants"]), ("following", node["following"]), ("preceding", node["preceding"]),
                     ("last_descendant", node["last_descendant"]), ("full_text", node["full_text"])]
            if node["sib"] is not None:
                pairs += [("next", node["sib"]["next"]), ("prev", node["sib"]["prev"]), ("index", node["sib"]["index"])]
            if "bf" in r:
                pairs += [("bf", node["bf"]), ("df", node["df"]), ("post", node["post"])]
            for key, mv in pairs:
                if key in r and r[key] != mv:
                    run.mismatch("model", case, {"node": node["id"], key: r[key]}, {key: mv})


def corpus():
    return [
        ("<r><a/>t<b>x<c/>y</b>z</r>", [{"op": "add_following", "target": 2, "items": [{"str": "u"}, {"str": "v"}]},
                                         {"op": "add_preceding", "target": 4, "items": [{"str": "w"}]}]),
        ("<r><!--c--><?p d?>t</r>", [{"op": "detach", "target": 1, "retain": False}, {"op": "detach", "target": 2, "retain": False}]),
    ]


def check(run: Run, lean: dict) -> int:
    n = run.budget(150, 4000)
    run.extra["rule"] = (
        "forests reached by random Legal edit histories (5-15 calls) over 12 seed documents; for every node of every tree: "
        "children, parent, index, len, item access (incl. negative), first/last child, following/preceding sibling(s), "
        "ancestors, depth, descendants, following, preceding, last_descendant, full_text, three traversers, document-order "
        "sort of random tag subsets, and every iterator under each of four type filters; for two of seven kind sets as default "
        "filters every filtered relation of every node vs the filtered navigation model; non-trivial = history of >= 3 calls"
    )
    ok = lean.get("driver_ok", True)
    for f in common.known_findings("C05"):
        if f.get("status") == "open":
            print(f"KNOWN-FINDING: property=C05 {f['key']}: {f['description']}")
            run.known_hit.append(f["key"])
    reqs = []
    for xml, ops in corpus():
        run_one(run, "corpus", xml, ops, 0, ok, reqs)
    for _ in range(n):
        run_one(run, "generated", E.pick_doc(run.rng), None, run.rng.randint(5, 15), ok, reqs)
    compare_with_model(run, reqs)
    compare_filtered(run)
    run.extra["nodes_checked"] = sum(len(rows) for _, _, rows in reqs)
    return run.finish(lean, LEVEL, ASSUME, search=search)


def search(run: Run):
    probe = Run(run.prop, run.tier, run.seed)
    for m in run.mismatches:
        c = m["case"]
        run_one(probe, "search", c["xml"], c["ops"], 0, False, [])
        if probe.violations:
            return [probe.violations[0]]
    for _ in range(1500):
        run_one(probe, "search", E.pick_doc(probe.rng), None, probe.rng.randint(5, 18), False, [])
        if probe.violations:
            return [probe.violations[0]]
    return None


def replay(payload: dict) -> int:
    bad = 0
    for f in payload.get("failing", []):
        probe = Run("C05", "quick", 0)
        c = f["case"]
        run_one(probe, "replay", c["xml"], c["ops"], 0, False, [])
        print(json.dumps({"case": c, "violations": probe.violations[:3]}, ensure_ascii=False))
        bad += bool(probe.violations)
    return 1 if bad else 0

"""C14 - location_path is a unique address of a tag node."""

from __future__ import annotations

import copy
import gc
import json

import common
import edits as E
from common import Run, run_driver

LEVEL = (
    "Lean theorems (Props/C14.lean): for every tree and every tag node the expression location_path denotes (`/*` followed "
    "by `*[position()=k]` steps with k the index among tag siblings) evaluates, from any context node and with any prefix "
    "map, to exactly that node; different tag nodes have different paths; the path mentions no names. That the string parses "
    "to that expression is checked per case through the parser model. Correspondence: location_path of every tag node of "
    "forests reached by edit histories (detached subtrees as their own tree) vs the model's string; evaluating it on the "
    "implementation from several context nodes and under several ambient filter settings returns exactly the node."
)
ASSUME = [
    "parse(location_path) = locationPathAst is established per explored case (driver evaluates the parser model), not as a theorem",
]


def ambient(name):
    from delb import altered_default_filters, is_comment_node, is_tag_node, is_text_node

    if name == "default":
        import contextlib

        return contextlib.nullcontext()
    return {
        "none": lambda: altered_default_filters(),
        "tag": lambda: altered_default_filters(is_tag_node),
        "text": lambda: altered_default_filters(is_text_node),
        "comment": lambda: altered_default_filters(is_comment_node),
        "never": lambda: altered_default_filters(lambda n: False),
    }[name]()


def run_one(run: Run, stream, xml, seed_ops, length, rows):
    from delb import TagNode, altered_default_filters

    gc.disable()
    try:
        world = E.World(xml)
        mirror = E.initial_mirror(world)
        ops = []
        for step in range(length if seed_ops is None else len(seed_ops)):
            op = E.gen_op(run.rng, mirror) if seed_ops is None else seed_ops[step]
            if "create" in op:
                world.create(op["create"], mirror.create(op["create"]))
            else:
                try:
                    mirror.apply(copy.deepcopy(op))
                except E.Rejected:
                    break
                if world.apply(op)[0]:
                    return
            ops.append(op)
            if world.dump(mirror) != mirror.live():
                return
            # the paths of the held node objects are also read in the middle of the history (a path that was read
            # before an edit must not influence the one that is read after it)
            for obj in list(world.objs.values()):
                if isinstance(obj, TagNode):
                    obj.location_path  # noqa: B018
            for nid in list(world.objs):
                if nid not in mirror.all_ids():
                    world.forget(nid)
        for root_obj in world.roots():
            if not isinstance(root_obj, TagNode):
                continue
            rid = world.handle.get(id(root_obj))
            mt = next((t for t in mirror.groups if t is not None and E.tid(t) == rid), None)
            if mt is None:
                continue
            with altered_default_filters():
                everything = [root_obj] + list(root_obj.iterate_descendants())
            tags = [n for n in everything if isinstance(n, TagNode)]
            case = {"xml": xml, "ops": ops, "root": rid}
            run.case(stream, case, len(tags) > 2)
            seen = {}
            impl = {}
            for t in tags:
                h = world.handle.get(id(t))
                setting = run.rng.choice(["default", "none", "tag", "text", "comment", "never"])
                with ambient(setting):
                    lp = t.location_path
                lp_none = None
                with altered_default_filters():
                    lp_none = t.location_path
                if lp != lp_none:
                    run.violation(stream, case, {"node": h, "why": "location_path depends on the ambient filters", setting: lp, "none": lp_none})
                if lp in seen:
                    run.violation(stream, case, {"why": "two tag nodes share a location_path", "path": lp, "nodes": [seen[lp], h]})
                seen[lp] = h
                impl[h] = lp
                for ctx in run.rng.sample(everything, min(3, len(everything))):
                    setting = run.rng.choice(["default", "none", "tag", "comment", "never"])
                    try:
                        with ambient(setting):
                            res = list(ctx.xpath(lp))
                    except Exception as e:  # noqa: BLE001
                        run.violation(stream, case, {"node": h, "path": lp, "why": f"evaluating the path raised {type(e).__name__}: {e}"})
                        continue
                    if len(res) != 1 or res[0] is not t:
                        run.violation(stream, case, {"node": h, "path": lp, "context": world.handle.get(id(ctx)), "filters": setting,
                                                     "why": "the path does not select exactly the node",
                                                     "selected": [world.handle.get(id(x)) for x in res]})
                run.count("depth of tag", lp.count("/") - 1)
            ctx_path = []
            rows.append((case, mt, impl, ctx_path))
    finally:
        gc.enable()


def compare_with_model(run: Run, rows):
    if not rows:
        return
    answers = run_driver([{"cmd": "locpath", "tree": mt, "ctx": ctx} for _, mt, _, ctx in rows])
    for (case, mt, impl, _), m in zip(rows, answers):
        if "driver_error" in m:
            raise common.ToolFailure(str(m))
        for r in m["rows"]:
            if r["id"] not in impl:
                continue
            if impl[r["id"]] != r["location_path"]:
                run.mismatch("model", case, {r["id"]: impl[r["id"]]}, {r["id"]: r["location_path"]}, "location_path string differs")
            if r["selects"] != [r["id"]] or r["ast_selects"] != [r["id"]] or not r["ast_ok"]:
                run.mismatch("model", case, None, r, "Lean model: path does not parse to the AST / select the node")


def entity_documents(run: Run, stream, count):
    """documents read with ParserOptions(resolve_entities=False): unresolved entity references stay in the tree between
    the elements (lxml entity nodes, which the XPath engine counts as `*`); the paths of the proper elements still are
    unique addresses (seeded C14-8: children counted on the lxml level with a filter that skips entity nodes)"""
    from delb import Document, ParserOptions, altered_default_filters, is_tag_node

    rng = run.rng

    def body(depth):
        out = ""
        for _ in range(rng.randint(0, 4)):
            r = rng.random()
            if r < 0.3:
                out += "&e%d;" % rng.randint(1, 2)
            elif r < 0.45:
                out += rng.choice(["t", " ", "<!--c-->", "<?p d?>"])
            elif depth < 3:
                out += "<%s>%s</%s>" % ("a", body(depth + 1), "a")
            else:
                out += "<b/>"
        return out

    for _ in range(count):
        xml = '<!DOCTYPE r [<!ENTITY e1 "one"><!ENTITY e2 "two">]><r>%s</r>' % body(0)
        case = {"xml": xml, "ops": [], "entities": True}
        try:
            doc = Document(xml, parser_options=ParserOptions(resolve_entities=False))
            with altered_default_filters():
                nodes = [doc.root, *doc.root.iterate_descendants()]
            proper = lambda n: not is_tag_node(n) or isinstance(n.universal_name, str)  # noqa: E731
            elements = [n for n in nodes if is_tag_node(n) and proper(n)]
            contexts = [n for n in nodes if proper(n)]
        except Exception as e:  # noqa: BLE001
            raise common.ToolFailure(f"entity document could not be built: {type(e).__name__}: {e}")
        run.case(stream, case, len(elements) > 2)
        run.count("entity references", min(xml.count("&e"), 6))
        seen = {}
        for node in elements:
            try:
                path = node.location_path
                if path in seen:
                    run.violation(stream, case, {"why": "two tag nodes share a location_path", "path": path})
                seen[path] = node
                for ctx in rng.sample(contexts, min(3, len(contexts))):
                    res = list(ctx.xpath(path))
                    if len(res) != 1 or res[0] is not node:
                        run.violation(stream, case, {"why": "location_path does not select exactly its node", "path": path,
                                                     "selected": len(res)})
                        break
            except Exception as e:  # noqa: BLE001
                run.violation(stream, case, {"why": f"location_path / its evaluation raised {type(e).__name__}: {e}"})
                break


def check(run: Run, lean: dict) -> int:
    n = run.budget(150, 4000)
    run.extra["rule"] = (
        "every tag node of every tree (incl. detached subtrees as their own tree) of forests reached by random Legal edit "
        "histories over documents with namespaces, comments, PIs and text between elements: its location_path under a random "
        "ambient filter setting, evaluated from 3 random context nodes (any kind) under random ambient filters; "
        "non-trivial = tree with more than 2 tag nodes"
    )
    ok = lean.get("driver_ok", True)
    rows = []
    for _ in range(n):
        run_one(run, "generated", E.pick_doc(run.rng), None, run.rng.randint(0, 12), rows)
    entity_documents(run, "entity-references", max(20, n // 5))
    if ok:
        compare_with_model(run, rows)
    return run.finish(lean, LEVEL, ASSUME, search=search)


def search(run: Run):
    probe = Run(run.prop, run.tier, run.seed)
    for m in run.mismatches:
        c = m["case"]
        run_one(probe, "search", c["xml"], c["ops"], 0, [])
        if probe.violations:
            return [probe.violations[0]]
    for _ in range(1500):
        run_one(probe, "search", E.pick_doc(probe.rng), None, probe.rng.randint(0, 14), [])
        if probe.violations:
            return [probe.violations[0]]
    return None


def replay(payload: dict) -> int:
    probe = Run("C14", "quick", 0)
    for f in payload.get("failing", []):
        c = f["case"]
        run_one(probe, "replay", c["xml"], c["ops"], 0, [])
    print(json.dumps(probe.violations[:3], ensure_ascii=False)[:2000])
    return 1 if probe.violations else 0

"""C18 - indented output puts each structural child on its own line at its depth."""

from __future__ import annotations

import json

import common
import fmt_common as F
import ser_common as S
import trees
from common import Run, run_driver

LEVEL = (
    "Lean theorem (Props/C18.lean): for every data-style tree, every non-empty whitespace indentation string and both "
    "attribute-alignment settings the PrettySerializer model writes exactly what the straightforward recursive pretty "
    "printer ppRef writes. Correspondence: real serialize(format_options=FormatOptions(indentation, width=0, align)) from "
    "the root, from a subtree and as a document vs the compiled model's string and vs ppRef (three-way exact equality)."
)
ASSUME = [
    "data style: a tag holds nothing, one text, or tag/comment/PI nodes separated by single-space text nodes; no xml:space",
    "prefix assignment is the C13 model (observed set orders passed as oracle input)",
]


def gen_case(rng):
    t = F.gen_data_tree(rng, max_depth=rng.choice([3, 3, 3, 3, 6]))
    paths = [p for p, _ in F.subtrees(t)]
    path = () if rng.random() < 0.6 else rng.choice(paths)
    return {
        "tree": t, "how": rng.choice(["parsed", "api"]), "path": list(path),
        "indent": rng.choice([" ", "  ", "\t", "    ", " \t"]), "align": rng.random() < 0.5, "width": 0,
        "decls": S.gen_decls(rng, S.tree_namespaces(t)) if rng.random() < 0.5 else None,
        "document": rng.random() < 0.25,
        # comments / PIs before and after the root, some with equal content (seeded C18-9: "is it the last one" by equality)
        "misc": {"pro": [rng.choice([["c", "x"], ["c", " end "], ["p", "page", "break"]]) for _ in range(rng.choice([0, 0, 1, 2]))],
                 "epi": [rng.choice([["c", "x"], ["c", " end "], ["p", "page", "break"]]) for _ in range(rng.choice([0, 0, 1, 2, 3]))]},
    }


def py_ref_lines(case, before, prefixes):
    """an independent third implementation of the reference printer (harness side)"""
    ind = case["indent"]
    pm = {ns: p for ns, p in prefixes}

    def attrs_of(t, root):
        data = []
        if root:
            d = {p: ns for ns, p in prefixes}
            if "" in d and d[""]:
                data.append(("xmlns", d[""]))
            for p in sorted(p for p in d if p and p[:-1] not in ("xml", "xmlns")):
                data.append(("xmlns:" + p[:-1], d[p]))
        for a in sorted(t[3], key=lambda a: (a[0], a[1])):
            data.append((pm[a[0]] + a[1], a[2]))
        return data

    def start(t, level, root, close):
        qn = pm[t[1]] + t[2]
        data = [(k, trees.esc_attr_min(v)) for k, v in attrs_of(t, root)]
        if case["align"] and len(data) > 1:
            w = max(len(k) for k, _ in data)
            lines = [ind * level + "<" + qn]
            lines += [ind * level + " " + ind + " " * (w - len(k)) + f'{k}="{v}"' for k, v in data]
            lines.append(ind * level + close)
            return lines
        return [ind * level + "<" + qn + "".join(f' {k}="{v}"' for k, v in data) + close]

    def pp(t, level, root=False):
        if t[0] == "c":
            return [ind * level + f"<!--{t[1]}-->"]
        if t[0] == "p":
            return [ind * level + f"<?{t[1]} {t[2]}?>"]
        qn = pm[t[1]] + t[2]
        if not t[4]:
            return start(t, level, root, "/>")
        out = start(t, level, root, ">")
        if len(t[4]) == 1 and t[4][0][0] == "x":
            out.append(ind * (level + 1) + trees.esc_text_min(" ".join(t[4][0][1].split())))
        else:
            for k in t[4]:
                if k[0] != "x":
                    out += pp(k, level + 1)
        out.append(ind * level + f"</{qn}>")
        return out

    return "\n".join(pp(before, 0, True))


def run_impl(case):
    if case.get("document"):
        from delb import Document, FormatOptions

        c = dict(case, path=[])
        misc = case.get("misc") or {"pro": [], "epi": []}
        mx = lambda n: "<!--%s-->" % n[1] if n[0] == "c" else "<?%s %s?>" % (n[1], n[2])  # noqa: E731
        if case["how"] == "parsed":
            root = Document("".join(map(mx, misc["pro"])) + trees.to_xml(case["tree"]) + "".join(map(mx, misc["epi"]))).root
            doc = root.document
        else:
            from delb import altered_default_filters

            root = trees.build_api(case["tree"])
            doc = Document(root)
            with altered_default_filters():
                for n in misc["pro"]:
                    doc.prologue.append(trees.build_api(n))
                for n in misc["epi"]:
                    doc.epilogue.append(trees.build_api(n))
        before = trees.extract(doc.root)
        buf = trees.KeepBytesIO()
        try:
            doc.write(buf, format_options=FormatOptions(align_attributes=case["align"], indentation=case["indent"], width=0),
                      namespaces=S.decls_from_items(case["decls"]))
            text = buf.value().decode("utf-8")
            # every construct before and after the root on a line of its own (Document.__serialize newline handling)
            head = '<?xml version="1.0" encoding="UTF-8"?>\n' + "".join(mx(n) + "\n" for n in misc["pro"])
            tail = "".join("\n" + mx(n) for n in misc["epi"])
            if text.startswith(head) and text.endswith(tail):
                res = {"out": text[len(head):len(text) - len(tail)]}
            else:
                res = {"err": "DocumentLayout", "msg": "declaration, prologue and epilogue are not on lines of their own: " + text[:300]}
        except Exception as e:  # noqa: BLE001
            res = {"err": type(e).__name__, "msg": str(e)}
        return before, res
    return F.serialize_impl(case)


def judge(run: Run, stream, case, before, res, model):
    run.case(stream, {k: case[k] for k in case if k != "tree"} | {"tree": case["tree"]}, trees.size(before) > 2)
    run.count("indent", repr(case["indent"]))
    run.count("align", case["align"])
    run.count("from", "document" if case.get("document") else ("root" if not case.get("path") else "subtree"))
    if "err" in res:
        if res["err"] == "ValueError" and model is not None and "nsmap_err" in model:
            return
        run.violation(stream, case, {"why": f"serialize raised {res['err']}: {res['msg']}"})
        return
    if model is None:
        return
    if "driver_error" in model:
        raise common.ToolFailure(str(model))
    if "result" not in model or "out" not in model["result"]:
        run.mismatch(stream, case, res, model, "model raises")
        return
    if not model["dataStyle"]:
        raise common.ToolFailure(f"generator produced a tree that is not data style: {before}")
    if res["out"] != model["ref"]:
        # the property itself: implementation vs the reference pretty printer
        run.violation(stream, case, {"why": "output differs from the recursive pretty printer", "output": res["out"], "reference": model["ref"]})
    if res["out"] != model["result"]["out"]:
        run.mismatch(stream, case, res["out"], model["result"]["out"], "impl != PrettySerializer model")
    if model["result"]["out"] != model["ref"]:
        run.mismatch(stream, case, model["result"]["out"], model["ref"], "Lean pretty model != ppRef (theorem says equal)")
    try:
        third = py_ref_lines(case, before, model["prefixes"]) if "prefixes" in model else None
    except KeyError:
        third = None
    if third is not None and third != model["ref"]:
        run.mismatch(stream, case, third, model["ref"], "harness reference printer != Lean ppRef")


def run_cases(run: Run, cases, stream, lean_ok=True):
    rows = []
    for c in cases:
        try:
            before, res = run_impl(c)
        except Exception as e:  # noqa: BLE001
            run.case(stream, c, False)
            run.violation(stream, c, f"building the case raised {type(e).__name__}: {e}")
            continue
        rows.append((c, before, res))
    models = run_driver([F.lean_request("pretty", c, b) for c, b, _ in rows]) if lean_ok and rows else [None] * len(rows)
    for (c, before, res), m in zip(rows, models):
        judge(run, stream, c, before, res, m)


def corpus():
    t = ["t", "", "root", [], [["t", "", "a", [], [["x", "hi"]]], ["x", " "], ["t", "", "b", [["", "x", "foo"]], [["t", "", "c", [], []]]]]]
    chim = ["t", "", "chimeney", [["", "super", "0"], ["", "califragi", "1"], ["", "listic", "2"], ["", "expialidocious", "3"]], []]
    base = {"how": "parsed", "path": [], "width": 0, "decls": None, "document": False}
    return [
        dict(base, tree=t, indent="  ", align=False),
        dict(base, tree=t, indent="\t", align=True),
        dict(base, tree=chim, indent="  ", align=True),
        dict(base, tree=chim, indent=" ", align=True, document=True),
        dict(base, tree=["t", "urn:x", "r", [["urn:z", "k", "v"]], [["c", "c"], ["x", " "], ["p", "t", "d"], ["x", " "], ["t", "", "e", [], []]]], indent="  ", align=False),
    ]


def check(run: Run, lean: dict) -> int:
    n = run.budget(1200, 30000)
    run.extra["rule"] = (
        "generated data-style trees (elements, comments, PIs, 0-3 attributes, namespaces; leaf texts) x indentation "
        "{' ','  ','\\t','    ',' \\t'} x align_attributes x {root, subtree, document}; parsed or API-built; "
        "non-trivial = more than 2 nodes"
    )
    ok = lean.get("driver_ok", True)
    run_cases(run, corpus(), "corpus", ok)
    run_cases(run, [gen_case(run.rng) for _ in range(n)], "generated", ok)
    return run.finish(lean, LEVEL, ASSUME, search=search)


def search(run: Run):
    # without a trustworthy Lean side the harness's own reference printer is the oracle
    probe = Run(run.prop, run.tier, run.seed)
    cands = [m["case"] for m in run.mismatches] + corpus() + [gen_case(run.rng) for _ in range(8000)]
    rows = []
    for c in cands:
        try:
            before, res = run_impl(c)
        except Exception as e:  # noqa: BLE001
            return [{"case": c, "detail": f"raised {type(e).__name__}: {e}"}]
        rows.append((c, before, res))
    try:
        models = run_driver([F.lean_request("pretty", c, b) for c, b, _ in rows])
    except common.ToolFailure:
        return None
    for (c, before, res), m in zip(rows, models):
        if "out" in res and "ref" in m and res["out"] != m["ref"]:
            return [{"case": c, "detail": {"output": res["out"], "reference": m["ref"]}}]
        if "err" in res and "nsmap_err" not in m:
            return [{"case": c, "detail": res}]
    return None


def replay(payload: dict) -> int:
    bad = 0
    for f in payload.get("failing", []):
        before, res = run_impl(f["case"])
        m = run_driver([F.lean_request("pretty", f["case"], before)])[0]
        ok = "out" in res and res["out"] == m.get("ref")
        print(json.dumps({"case": f["case"], "result": res, "reference": m.get("ref"), "agrees": ok}, ensure_ascii=False))
        bad += not ok
    return 1 if bad else 0

#!/usr/bin/env python3
"""Maintenance helper: regenerates the machine-derived parts of DESIGN.md (between the GENERATED markers) from
the Lean sources (theorem names), harness/manifest.py (what each check claims), known_findings.json and seeded/*/meta.json.

usage: python3 harness/design_sections.py --write
"""
import json
import re
import sys
from pathlib import Path

VERIF = Path(__file__).resolve().parent.parent
sys.path.insert(0, str(VERIF / "harness"))
sys.dont_write_bytecode = True


def strip_comments(src):
    out, i, depth = [], 0, 0
    while i < len(src):
        if src.startswith("/-", i):
            depth += 1
            i += 2
        elif src.startswith("-/", i) and depth:
            depth -= 1
            i += 2
        elif depth:
            i += 1
        elif src.startswith("--", i):
            while i < len(src) and src[i] != "\n":
                i += 1
        else:
            out.append(src[i])
            i += 1
    return "".join(out)


def theorems(mod):
    f = VERIF / "lean" / "DelbModel" / "Props" / f"{mod}.lean"
    if not f.exists():
        return []
    return re.findall(r"^theorem\s+([^\s:({\[]+)", strip_comments(f.read_text()), re.M)


def imports_of(mod):
    f = VERIF / "lean" / "DelbModel" / "Props" / f"{mod}.lean"
    return re.findall(r"^import\s+(DelbModel\.(?:Model|Generated)\.\S+)", f.read_text(), re.M) if f.exists() else []


def lines_of(path):
    return sum(1 for _ in path.read_text().splitlines())


def lemma_lines():
    tot = {}
    base = VERIF / "lean" / "DelbModel"
    for kind in ("Model", "Lemmas", "Props", "Generated"):
        tot[kind] = sum(lines_of(f) for f in (base / kind).rglob("*.lean"))
    tot["Driver"] = sum(lines_of(f) for f in (VERIF / "lean" / "DelbDriver").rglob("*.lean")) + lines_of(VERIF / "lean" / "Driver.lean")
    return tot


def per_property():
    import manifest

    props = [json.loads(l) for l in (VERIF / "properties.jsonl").read_text().splitlines() if l.strip()]
    findings = json.loads((VERIF / "known_findings.json").read_text())["findings"]
    seeded = {}
    for d in sorted((VERIF / "seeded").iterdir()):
        m = json.loads((d / "meta.json").read_text())
        seeded.setdefault(d.name.split("-")[0], []).append((d.name, m))
    out = []
    for p in props:
        pid = p["id"]
        c = manifest.CLAIMED.get(pid)
        out.append(f"### {pid} {p['title']}\n")
        if c is None:
            out.append("not claimed.\n")
            continue
        out.append(f"*Technique:* {c['technique']}.\n")
        out.append(c["text"] + "\n")
        mods = [pid] + [m for m in {"C03": ["C03Wrap"]}.get(pid, []) if (VERIF / "lean" / "DelbModel" / "Props" / f"{m}.lean").exists()]
        for m in mods:
            ths = theorems(m)
            out.append(f"*Theorems in `lean/DelbModel/Props/{m}.lean`* ({len(ths)}): " + ", ".join(f"`{t}`" for t in ths) + ".\n")
        models = sorted({i.replace("DelbModel.", "") for m in mods for i in imports_of(m)})
        if models:
            out.append("*Models / generated tables imported directly:* " + ", ".join(f"`{m}`" for m in models) + ".\n")
        out.append(f"*Harness:* `harness/props/{pid.lower()}.py`.\n")
        note = c["note"].replace(manifest.TB, "").strip()
        if note:
            out.append(f"*Limits / assumptions:* {note}\n")
        fs = [f for f in findings if f["property"] == pid]
        if fs:
            out.append("*Findings:*\n")
            for f in fs:
                if f["status"] == "fixed":
                    out.append(f"- fixed — `{f['key']}`: {f['fixed'].split(' ', 3)[3] if f.get('fixed') else f['description']} (commit {f['fixed'].split(' ')[2]})")
                else:
                    out.append(f"- OPEN — `{f['key']}`: {f['description']}")
            out.append("")
        ss = seeded.get(pid, [])
        if ss:
            out.append("*Seeded changes:*\n")
            for name, m in ss:
                out.append(f"- `seeded/{name}`: {m['summary']} — **{m['confirmed']['status']}**; detected by {m['confirmed']['detected_by']}.")
            out.append("")
    return "\n".join(out)


def seeded_table():
    metas = [json.loads((d / "meta.json").read_text()) for d in sorted((VERIF / "seeded").iterdir())]
    once = sum(1 for m in metas if m["confirmed"]["status"].startswith("caught at once"))
    gone = sum(1 for m in metas if "no longer manifests" in m["confirmed"]["status"])
    head = (f"{len(metas)} seeded changes are archived; every one that still manifests on the current library is detected by the check "
            f"of its property on the current machinery ({gone} no longer manifest: the code they relied on was repaired since - the "
            "regression sweep of section 3.2 also lists those whose patch no longer applies). "
            f"{once} were caught by the checks as they were when the change arrived, {len(metas) - once} were missed at first or caught "
            "only as a broken correspondence without a failing input - each of those led to a stronger generator, stream or "
            "oracle, named in the `result` column. The later rounds asked for changes that a random differential harness is "
            "unlikely to trigger (particular strings, sizes, argument forms, second calls), which is why their miss rate is "
            "higher.\n\n")
    rows = [head + "| id | files | what it breaks | result | detected by |", "|---|---|---|---|---|"]
    for d in sorted((VERIF / "seeded").iterdir()):
        m = json.loads((d / "meta.json").read_text())
        summ = m["summary"].replace("|", "\\|").replace("\n", " ")
        if len(summ) > 260:
            summ = summ[:257] + "..."
        rows.append(f"| {d.name} | {', '.join(m.get('files', []))} | {summ} | {m['confirmed']['status']} | {m['confirmed']['detected_by'].replace('|', '/')} |")
    return "\n".join(rows) + "\n"


def findings_table():
    findings = json.loads((VERIF / "known_findings.json").read_text())["findings"]
    rows = ["| property | key | status | what fails |", "|---|---|---|---|"]
    for f in findings:
        st = "open" if f["status"] == "open" else "fixed " + f["fixed"].split(" ")[2]
        what = (f["fixed"].split(" ", 3)[3] if f["status"] == "fixed" else f["description"]).replace("|", "\\|").replace("\n", " ")
        rows.append(f"| {f['property']} | {f['key']} | {st} | {what} |")
    return "\n".join(rows) + "\n"


def sizes():
    t = lemma_lines()
    return (f"Lean sources at the time of writing: models {t['Model']} lines, generated tables {t['Generated']}, helper lemmas "
            f"{t['Lemmas']}, property files {t['Props']}, driver {t['Driver']}.\n")


SECTIONS = {"per-property": per_property, "seeded": seeded_table, "findings": findings_table, "sizes": sizes}


def main():
    p = VERIF / "DESIGN.md"
    s = p.read_text()
    for name, fn in SECTIONS.items():
        a, b = f"<!-- BEGIN GENERATED:{name} -->", f"<!-- END GENERATED:{name} -->"
        if a in s and b in s:
            s = s[: s.index(a) + len(a)] + "\n" + fn() + s[s.index(b):]
    if "--write" in sys.argv:
        p.write_text(s)
    else:
        print(s)


if __name__ == "__main__":
    main()

#!/bin/bash
# maintenance helper (not a registered command): apply a seeded change to /repo, run checks, undo
# usage: try_mutant.sh <patch.diff> <Cnn> [<Cnn> ...]
set -u
patch="$1"; shift
cd /repo || exit 2
if ! git diff --quiet; then echo "/repo is dirty"; exit 2; fi
git apply "$patch" || { echo "patch does not apply"; exit 2; }
for c in "$@"; do
  out=$(cd /verif && ./check "$c" 2>&1 | grep -E "^VIOLATION|TOOL-FAILURE" | head -3)
  echo "[$c] rc=$? ${out:-<no violation reported>}"
done
git -C /repo checkout -- .

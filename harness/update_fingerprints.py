#!/usr/bin/env python3
"""maintenance helper (not a registered command): record the digests of the files the properties are anchored in, as they
are in /repo now - run after every commit to /repo once the checks were re-validated on it"""
import json, sys
from pathlib import Path

sys.path.insert(0, str(Path(__file__).resolve().parent))
import common

files = sorted({f for line in (common.VERIF / "properties.jsonl").read_text().splitlines() if line.strip()
                for f in json.loads(line)["anchors"]["files"]})
common.FINGERPRINTS.write_text(json.dumps({f: common.file_digest(f) for f in files}, indent=1) + "\n")
print(len(files), "files")

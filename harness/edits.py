"""Edit histories: real delb trees with a handle registry, an independent plain-tree mirror
(the property oracle), and the request for the Lean edit model.  Shared by C01/C05/C09/C10/C14.

id-labelled plain trees: ["t", id, ns, name, attrs, kids] / ["x", id, s] / ["c", id, s] / ["p", id, target, s]
"""

from __future__ import annotations

import copy

import trees

DOCS = [
    "<r><a/>t<b>x<c/>y</b>z</r>",
    "<r>lead<a>in</a>mid<!--c-->after<?p d?>tail</r>",
    "<r><a><b><c>deep</c></b></a><d/></r>",
    '<r xmlns="urn:d"><a>x</a><b xmlns:p="urn:p"><p:c/>t</b></r>',
    "<r><a/><b/><c/></r>",
    "<r>only</r>",
    "<r/>",
    "<r><!--1--><!--2-->t<?p 1?><?p 2?></r>",
    '<p:r xmlns:p="urn:p"><p:a/>x<q xmlns="urn:q"/>y</p:r>',
    "<r>a<b/>b<b/>c<b/>d</r>",
    "<r><a>1</a><a>2<a>3</a>4</a>5</r>",
    "<r> <a> </a> </r>",
    '<r a="1" b="2"><a id="x">t<b n="1" m=""/>u</a><!--c--><c k="v w"/>z</r>',
    '<p:r xmlns:p="urn:p" xmlns:q="urn:q" n="0"><p:item n="1" q:ref="r">text<!--c--><plain n="2" p:n="3"/>tail</p:item>end</p:r>',
    # comments / PIs that are equal to each other (they compare by content), with text behind them
    "<p><!--x--><a/><!--x-->tail<b/><?t d?>u<?t d?>v<!--x-->w</p>",
    # namespaces the library knows by itself (COMMON_NAMESPACES)
    '<html xmlns="http://www.w3.org/1999/xhtml"><body><p>t</p><svg xmlns="http://www.w3.org/2000/svg"><g/>u</svg>v</body></html>',
]


def pick_doc(rng, docs=None):
    """a seed document: one of the fixed ones or (30%) a generated one - any mix of text before/after/between
    elements, comments, PIs, namespaces with at most one default-namespace declaration; attributes only when no
    default namespace is declared (attribute keys after re-parenting across default-namespace scopes: recorded
    observation, see DESIGN.md section 4)"""
    docs = DOCS if docs is None else docs
    if rng.random() >= 0.3:
        return rng.choice(docs)
    dn = rng.choice([None, None, "urn:d"])
    text = lambda g: trees.gen_text(g, ws_prob=0.3, words=["x", "yz", "lorem", "é", "&", "<"], ws=[" ", "\n", "  "])  # noqa: E731
    t = trees.gen_tree(rng, max_depth=3, max_kids=4, nss=["", "", "urn:x", "urn:d"] if dn else ["", "", "urn:x", "urn:y"],
                       p_text=0.45, p_comment=0.1, p_pi=0.07, text=text, attrs=dn is None, inherit_ns=0.7)
    if dn:
        t[1] = dn
    return trees.to_xml(t, default_ns=dn)


# ------------------------------------------------------------------ the mirror (plain ordered trees)
class Rejected(Exception):
    def __init__(self, kind):
        self.kind = kind


def tid(t):
    return t[1]


def kids(t):
    return t[5] if t[0] == "t" else []


def walk(t, path=()):
    yield path, t
    if t[0] == "t":
        for i, k in enumerate(t[5]):
            yield from walk(k, path + (i,))


class Mirror:
    def __init__(self, groups, nxt):
        self.groups = groups  # list of trees or None
        self.next = nxt

    def find(self, nid):
        for g, t in enumerate(self.groups):
            if t is None:
                continue
            for p, n in walk(t):
                if tid(n) == nid:
                    return g, p
        return None

    def node(self, g, p):
        t = self.groups[g]
        for i in p:
            t = t[5][i]
        return t

    def parent(self, g, p):
        return self.node(g, p[:-1])

    def fresh(self):
        self.next += 1
        return self.next - 1

    def clone(self, t):
        i = self.fresh()
        if t[0] == "t":
            return ["t", i, t[2], t[3], copy.deepcopy(t[4]), [self.clone(k) for k in t[5]]]
        return [t[0], i] + list(t[2:])

    def materialize(self, item, ctx_ns):
        if "str" in item:
            return ["x", self.fresh(), item["str"]]
        if "node" in item:
            g, p = self.find(item["node"])
            if item.get("clone"):
                return self.clone(self.node(g, p))
            if p:
                raise Rejected("InvalidOperation")
            t = self.groups[g]
            self.groups[g] = None
            return t
        name, attrs, children = item["def"]
        i = self.fresh()
        t = ["t", i, ctx_ns, name, [list(a) for a in attrs], []]
        for c in children:
            t[5].append(self.materialize(c, ctx_ns))
        return t

    def ns_of(self, t):
        return t[2] if t[0] == "t" else ""

    def ctx_ns(self, g, p):
        """`_new_tag_node_from_definition`: a tag node is its own context, other nodes use their parent"""
        n = self.node(g, p)
        return self.ns_of(n) if n[0] == "t" else self.ns_of(self.parent(g, p))

    def add_following(self, g, p, items):
        for it in items:
            if not p:
                raise Rejected("root-sibling")
            par = self.parent(g, p)
            new = self.materialize(it, self.ctx_ns(g, p))
            par[5].insert(p[-1] + 1, new)
            p = p[:-1] + (p[-1] + 1,)

    def add_preceding(self, g, p, items):
        for it in items:
            if not p:
                raise Rejected("root-sibling")
            par = self.parent(g, p)
            new = self.materialize(it, self.ctx_ns(g, p))
            par[5].insert(p[-1], new)

    def apply(self, op):
        g, p = self.find(op["target"])
        t = self.node(g, p)
        k = op["op"]
        items = op.get("items", [])
        if k == "add_following":
            self.add_following(g, p, items)
        elif k == "add_preceding":
            self.add_preceding(g, p, items)
        elif k == "append":
            if items and not t[5]:
                t[5].append(self.materialize(items[0], self.ns_of(t)))
                items = items[1:]
            if items:
                self.add_following(g, p + (len(t[5]) - 1,), items)
        elif k == "insert":
            idx = op["index"]
            if idx > len(t[5]):
                raise Rejected("IndexError")
            if idx == 0:
                if t[5]:
                    self.add_preceding(g, p + (0,), items[:1])
                else:
                    t[5].append(self.materialize(items[0], self.ns_of(t)))
            else:
                self.add_following(g, p + (idx - 1,), items[:1])
            self.add_following(g, p + (idx,), items[1:])
        elif k == "detach":
            if not p:
                return
            par = self.parent(g, p)
            if op.get("retain"):
                ch = t[5]
                t[5] = []
                par[5][p[-1] : p[-1] + 1] = ch
                # group order as the model creates them: children first, then the node
                for _ in ch:
                    self.groups.append(None)
                self.groups.append(t)
            else:
                par[5].pop(p[-1])
                self.groups.append(t)
        elif k == "replace":
            if not p:
                raise Rejected("InvalidOperation")
            self.add_following(g, p, items)
            g, p = self.find(op["target"])
            self.parent(g, p)[5].pop(p[-1])
            self.groups.append(t)
        elif k == "delitem":
            if op["index"] >= len(t[5]):
                raise Rejected("IndexError")
            self.groups.append(t[5].pop(op["index"]))
        elif k == "set_content":
            t[2] = op["s"]
        elif k == "merge":
            self.merge(t)
        else:
            raise ValueError(k)

    def merge(self, t):
        if t[0] != "t":
            return
        out = []
        for k in t[5]:
            self.merge(k)
            if k[0] == "x" and out and out[-1][0] == "x":
                out[-1][2] += k[2]
            else:
                out.append(k)
        t[5] = out

    def create(self, c):
        i = self.fresh()
        if c["kind"] == "tag":
            self.groups.append(["t", i, c["ns"], c["name"], [], []])
        elif c["kind"] == "comment":
            self.groups.append(["c", i, c["s"]])
        else:
            self.groups.append(["p", i, c["target"], c["s"]])
        return i

    def live(self):
        return sorted((canon(t) for t in self.groups if t is not None), key=lambda t: t[1])

    def all_ids(self):
        return {tid(n) for t in self.groups if t is not None for _, n in walk(t)}


def canon(t):
    if t[0] != "t":
        return list(t)
    return ["t", t[1], t[2], t[3], trees.sort_attrs(t[4]), [canon(k) for k in t[5]]]


# ------------------------------------------------------------------ the implementation side
class World:
    """Real delb objects with handles.  Every registered object is referenced from here, so wrappers
    stay alive and identities are stable (garbage collection is C04's subject)."""

    def __init__(self, xml):
        from delb import Document, altered_default_filters

        self.doc = Document(xml)
        self.objs = {}
        self.handle = {}
        with altered_default_filters():
            n = 0
            stack = [self.doc.root]
            order = []
            # pre-order
            def pre(node):
                order.append(node)
                for c in node.iterate_children():
                    pre(c)
            pre(self.doc.root)
            for node in order:
                self.register(node, n)
                n += 1
        self.next = n

    def register(self, obj, nid):
        self.objs[nid] = obj
        self.handle[id(obj)] = nid

    def forget(self, nid):
        obj = self.objs.pop(nid, None)
        if obj is not None:
            self.handle.pop(id(obj), None)

    def dump_node(self, node, mirror_node, adopt):
        """id-tree of `node`; unknown objects adopt the id the mirror has at the same place"""
        from delb import CommentNode, ProcessingInstructionNode, TagNode, TextNode

        h = self.handle.get(id(node))
        if h is None:
            if mirror_node is not None and adopt:
                h = tid(mirror_node)
                if h in self.objs:
                    h = -1  # the mirror has a known node here: identity differs
                else:
                    self.register(node, h)
            else:
                h = -1
        if isinstance(node, TagNode):
            attrs = [[a.namespace, a.local_name, a.value] for a in node.attributes.values()]
            mk = kids(mirror_node) if mirror_node is not None and mirror_node[0] == "t" else []
            ch = []
            for i, c in enumerate(node.iterate_children()):
                ch.append(self.dump_node(c, mk[i] if i < len(mk) else None, adopt))
            return ["t", h, node.namespace, node.local_name, trees.sort_attrs(attrs), ch]
        if isinstance(node, TextNode):
            return ["x", h, node.content]
        if isinstance(node, CommentNode):
            return ["c", h, node.content]
        if isinstance(node, ProcessingInstructionNode):
            return ["p", h, node.target, node.content]
        raise TypeError(type(node))

    def roots(self):
        from delb import altered_default_filters

        seen, out = set(), []
        with altered_default_filters():
            for nid in sorted(self.objs):
                obj = self.objs[nid]
                try:
                    while obj.parent is not None:
                        obj = obj.parent
                except Exception:  # noqa: BLE001  a dead (merged away) text node
                    continue
                if id(obj) not in seen:
                    seen.add(id(obj))
                    out.append(obj)
        return out

    def dump(self, mirror: Mirror, adopt=True):
        from delb import altered_default_filters

        by_root = {tid(t): t for t in mirror.groups if t is not None}
        res = []
        with altered_default_filters():
            for r in self.roots():
                h = self.handle.get(id(r))
                res.append(self.dump_node(r, by_root.get(h), adopt))
        return sorted(res, key=lambda t: t[1])

    def item(self, it):
        from delb import tag

        if "str" in it:
            return it["str"]
        if "node" in it:
            return self.objs[it["node"]]
        name, attrs, children = it["def"]
        return tag(name, {a[1]: a[2] for a in attrs}, [self.item(c) for c in children])

    def apply(self, op):
        """returns (exception class name or None, returned objects)"""
        from delb import altered_default_filters

        o = self.objs[op["target"]]
        k = op["op"]
        items = [self.item(i) for i in op.get("items", [])]
        clone = any(i.get("clone") for i in op.get("items", []))
        import contextlib

        # detach / merge_text_nodes are also called under the library's default filters (comments and processing
        # instructions hidden): the edit must be the same
        ambient = contextlib.nullcontext if op.get("ambient") == "default" else altered_default_filters
        try:
            with ambient():
                if k == "add_following":
                    r = o.add_following_siblings(*items, clone=clone)
                elif k == "add_preceding":
                    r = o.add_preceding_siblings(*items, clone=clone)
                elif k == "append":
                    r = o.append_children(*items, clone=clone)
                elif k == "insert":
                    r = o.insert_children(op["index"], *items, clone=clone)
                elif k == "detach":
                    r = (o.detach(retain_child_nodes=op.get("retain", False)),)
                elif k == "replace":
                    r = (o.replace_with(items[0], clone=clone),)
                elif k == "delitem":
                    del o[op["index"]]
                    r = ()
                elif k == "set_content":
                    o.content = op["s"]
                    r = ()
                elif k == "merge":
                    o.merge_text_nodes()
                    r = ()
                else:
                    raise ValueError(k)
            return None, r
        except Exception as e:  # noqa: BLE001
            return type(e).__name__, ()

    def create(self, c, nid):
        from delb import new_comment_node, new_processing_instruction_node, new_tag_node

        if c["kind"] == "tag":
            n = new_tag_node(c["name"], namespace=c["ns"] or None)
        elif c["kind"] == "comment":
            n = new_comment_node(c["s"])
        else:
            n = new_processing_instruction_node(c["target"], c["s"])
        self.register(n, nid)


# ------------------------------------------------------------------ history generation (Legal edits)
TEXTS = ["t", "uv", " w ", "x y", "é", "&"]


def gen_item(rng, mirror: Mirror, target_group, depth=0):
    r = rng.random()
    if r < 0.4:
        return {"str": rng.choice(TEXTS)}
    if r < 0.6:
        roots = [t for g, t in enumerate(mirror.groups) if t is not None and g != target_group and g != 0]
        if roots:
            return {"node": tid(rng.choice(roots))}
    if r < 0.75:
        ids = sorted(mirror.all_ids())
        return {"node": rng.choice(ids), "clone": True}
    children = []
    if depth < 2:
        for _ in range(rng.choice([0, 0, 1, 2])):
            children.append(gen_item_def_child(rng, depth + 1))
    return {"def": [rng.choice(["n", "m", "e"]), [], children]}


def gen_item_def_child(rng, depth):
    if rng.random() < 0.5:
        return {"str": rng.choice(TEXTS)}
    children = [] if depth >= 2 or rng.random() < 0.6 else [gen_item_def_child(rng, depth + 1)]
    return {"def": [rng.choice(["n", "m"]), [], children]}


# detaching and merging are named by C08 as giving the same result under any ambient filters; calls that address positions
# among siblings (indexes, "the sibling before", "the last child") follow the caller's filters by design and stay unfiltered
AMBIENT_FREE = ("detach", "merge")


def gen_op(rng, mirror: Mirror):
    """a Legal edit for the current state (no rejected operations, no empty text, no cycles)"""
    op = gen_op_plain(rng, mirror)
    if op.get("op") in AMBIENT_FREE and rng.random() < 0.4:
        op["ambient"] = "default"
    return op


def gen_op_plain(rng, mirror: Mirror):
    for _ in range(50):
        if rng.random() < 0.07:
            return {"create": rng.choice([
                {"kind": "tag", "ns": rng.choice(["", "", "urn:n"]), "name": rng.choice(["n", "m"])},
                {"kind": "comment", "s": rng.choice(["c", " c "])},
                {"kind": "pi", "target": "t", "s": rng.choice(["d", ""])},
            ])}
        nodes = [(g, p, n) for g, t in enumerate(mirror.groups) if t is not None for p, n in walk(t)]
        g, p, n = rng.choice(nodes)
        kind = rng.choice(["add_following", "add_following", "add_preceding", "add_preceding", "append", "append",
                           "insert", "detach", "detach", "replace", "delitem", "set_content", "merge"])
        is_doc_root = g == 0 and not p
        items = None

        def mk_items(k):
            out = []
            used = set()
            for _ in range(k):
                it = gen_item(rng, mirror, g)
                if "node" in it and not it.get("clone"):
                    if it["node"] in used:
                        continue
                    used.add(it["node"])
                out.append(it)
            # the `clone` flag of the API applies to the whole call
            if any(i.get("clone") for i in out):
                out = [i for i in out if "node" not in i or i.get("clone")]
            return out

        if kind in ("add_following", "add_preceding"):
            if not p:
                continue
            items = mk_items(rng.choice([1, 1, 2, 3]))
            if not items:
                continue
            return {"op": kind, "target": tid(n), "items": items}
        if kind == "append":
            if n[0] != "t":
                continue
            items = mk_items(rng.choice([1, 1, 2, 3]))
            if not items:
                continue
            return {"op": kind, "target": tid(n), "items": items}
        if kind == "insert":
            if n[0] != "t":
                continue
            items = mk_items(rng.choice([1, 1, 2]))
            if not items:
                continue
            return {"op": kind, "target": tid(n), "index": rng.randint(0, len(n[5])), "items": items}
        if kind == "detach":
            if is_doc_root:
                continue
            retain = bool(p) and n[0] == "t" and rng.random() < 0.3
            return {"op": kind, "target": tid(n), "retain": retain}
        if kind == "replace":
            if not p:
                continue
            items = mk_items(1)
            if not items:
                continue
            return {"op": kind, "target": tid(n), "items": items}
        if kind == "delitem":
            if n[0] != "t" or not n[5]:
                continue
            return {"op": kind, "target": tid(n), "index": rng.randrange(len(n[5]))}
        if kind == "set_content":
            if n[0] != "x":
                continue
            return {"op": kind, "target": tid(n), "s": rng.choice(TEXTS)}
        if kind == "merge":
            if n[0] != "t":
                continue
            return {"op": kind, "target": tid(n)}
    return {"create": {"kind": "comment", "s": "c"}}


def initial_mirror(world: World):
    from delb import altered_default_filters

    m = Mirror([None], world.next)
    with altered_default_filters():
        m.groups[0] = world.dump_node(world.doc.root, None, False)
    return m

"""Shared machinery of the /verif checks.

Every check has three stages (DESIGN.md 1.1):
  1. regenerate Lean tables from /repo, `lake build` the property's theorems, audit axioms
  2. correspondence: real implementation vs the compiled Lean model driver, plus the
     property oracle on every explored case
  3. verdict (+ failing-input search when stage 1 or 2 broke)
"""

from __future__ import annotations

import fcntl
import hashlib
import json
import os
import random
import re
import subprocess
import sys
import time
from pathlib import Path

sys.dont_write_bytecode = True

VERIF = Path(__file__).resolve().parent.parent
REPO = Path(os.environ.get("VERIF_REPO", "/repo"))
LEAN = VERIF / "lean"
DRIVER = LEAN / ".lake" / "build" / "bin" / "driver"
EVIDENCE = VERIF / "evidence"
REPLAYS = VERIF / "replays"
KNOWN_FINDINGS = VERIF / "known_findings.json"

ALLOWED_AXIOMS = {"propext", "Classical.choice", "Quot.sound"}
FORBIDDEN = re.compile(
    r"\bsorry\b|\badmit\b|^\s*axiom\s|native_decide|bv_decide|implemented_by|\bunsafe\s|maxHeartbeats\s+0"
)


def use_repo():
    """Make `import delb` resolve to the tree under test (REPO's working tree)."""
    p = str(REPO)
    if sys.path[0] != p:
        sys.path.insert(0, p)
    os.environ["DELB_VERIF"] = "1"
    sys.unraisablehook = _unraisable
    import warnings

    # generated trees carry invalid xml:space values on purpose
    warnings.filterwarnings("ignore", message="Encountered and ignoring an invalid")


UNRAISABLE: list[str] = []


def _unraisable(u):
    """Exceptions swallowed by the interpreter (e.g. inside the gc callback) are recorded,
    not printed: they matter for C04 and are reported there."""
    if len(UNRAISABLE) < 1000:
        UNRAISABLE.append(f"{type(u.exc_value).__name__}: {u.exc_value} in {getattr(u.object, '__qualname__', u.object)!r}")


class ToolFailure(Exception):
    """The machinery itself failed (exit 2) - never a violation."""


def sh(cmd, cwd=None, timeout=3600, input=None):
    r = subprocess.run(
        cmd, cwd=cwd, input=input, capture_output=True, text=True, timeout=timeout
    )
    return r.returncode, r.stdout + r.stderr


class _Lock:
    def __enter__(self):
        (LEAN / ".lake").mkdir(exist_ok=True)
        self.f = open(LEAN / ".lake" / "verif.lock", "w")
        fcntl.flock(self.f, fcntl.LOCK_EX)
        return self

    def __exit__(self, *a):
        fcntl.flock(self.f, fcntl.LOCK_UN)
        self.f.close()


def strip_lean_comments(src: str) -> str:
    out, i, depth, n = [], 0, 0, len(src)
    while i < n:
        if src.startswith("/-", i):
            depth += 1
            i += 2
        elif depth and src.startswith("-/", i):
            depth -= 1
            i += 2
        elif depth:
            if src[i] == "\n":
                out.append("\n")
            i += 1
        elif src.startswith("--", i):
            while i < n and src[i] != "\n":
                i += 1
        else:
            out.append(src[i])
            i += 1
    return "".join(out)


def forbidden_tokens() -> list[str]:
    hits = []
    for f in sorted(LEAN.rglob("*.lean")):
        if ".lake" in f.parts:
            continue
        for ln, line in enumerate(strip_lean_comments(f.read_text()).splitlines(), 1):
            if FORBIDDEN.search(line):
                hits.append(f"{f.relative_to(VERIF)}:{ln}: {line.strip()}")
    return hits


# further theorem files of a property (built and audited with it when present)
EXTRA_MODULES = {"C03": ["C03Wrap"], "C12": ["C12Codec"], "C01": ["C01Api"], "C02": ["C02Scan"]}


def modules(prop: str) -> list[str]:
    return [prop] + [m for m in EXTRA_MODULES.get(prop, []) if (LEAN / "DelbModel" / "Props" / f"{m}.lean").exists()]


def theorem_names(prop: str) -> list[str]:
    names = []
    for mod in modules(prop):
        f = LEAN / "DelbModel" / "Props" / f"{mod}.lean"
        src = strip_lean_comments(f.read_text())
        stack = []  # a file may hold several (non-nested or nested) namespace sections
        for line in src.splitlines():
            m = re.match(r"^namespace\s+(\S+)", line)
            if m:
                stack.append(m.group(1))
                continue
            m = re.match(r"^end\s+(\S+)", line)
            if m and stack and stack[-1] == m.group(1):
                stack.pop()
                continue
            m = re.match(r"^(?:protected\s+|private\s+)?theorem\s+([^\s:({\[]+)", line)
            if m:
                names.append(".".join(stack + [m.group(1)]))
    return names


def lean_stage(prop: str, tier: str) -> dict:
    """Stage 1. Returns a report; report['ok'] False means a proof obligation broke."""
    t0 = time.time()
    rep = {
        "ok": True,
        "failures": [],
        "obligations": [],
        "discharged": [],
        "axioms": {},
        "generated": [],
        "checker_cmd": f"cd lean && lake build DelbModel.Props.{prop} driver && lake env lean <#print axioms of every theorem in Props/{prop}.lean>",
    }
    with _Lock():
        rc, out = sh(
            ["/venv/bin/python", str(VERIF / "harness" / "gen_tables.py")],
            cwd=VERIF,
            timeout=600,
        )
        if rc != 0:
            raise ToolFailure("gen_tables.py failed:\n" + out[-3000:])
        rep["generated"] = [l for l in out.splitlines() if l.strip()]
        # the driver only depends on models + generated tables
        rc, out = sh(["lake", "build", "driver"], cwd=LEAN, timeout=3000)
        rep["driver_ok"] = rc == 0
        if rc != 0:
            rep["ok"] = False
            rep["failures"].append("lake build driver failed:\n" + out[-3000:])
        mods = [f"DelbModel.Props.{m}" for m in modules(prop)]
        rc, out = sh(["lake", "build"] + mods, cwd=LEAN, timeout=3000)
        names = theorem_names(prop)
        rep["obligations"] = names
        if rc != 0:
            rep["ok"] = False
            errs = [l for l in out.splitlines() if "error" in l]
            rep["failures"].append(
                f"lake build DelbModel.Props.{prop} failed:\n" + "\n".join(errs[:40])
            )
            rep["build_log"] = out[-6000:]
            rep["wall_s"] = time.time() - t0
            return rep
        audit = LEAN / ".lake" / f"audit_{prop}.lean"
        audit.write_text(
            "".join(f"import {m}\n" for m in mods)
            + "".join(f"#print axioms {n}\n" for n in names)
        )
        rc, out = sh(["lake", "env", "lean", str(audit)], cwd=LEAN, timeout=1200)
        if rc != 0:
            rep["ok"] = False
            rep["failures"].append("axiom audit failed to run:\n" + out[-3000:])
        txt = out.replace("\n  ", " ")
        for n in names:
            m = re.search(
                r"'" + re.escape(n) + r"' (does not depend on any axioms|depends on axioms: \[([^\]]*)\])",
                txt,
            )
            if not m:
                rep["ok"] = False
                rep["failures"].append(f"no axiom report for {n}")
                continue
            axs = (
                set()
                if m.group(2) is None
                else {a.strip() for a in m.group(2).replace("\n", " ").split(",") if a.strip()}
            )
            rep["axioms"][n] = sorted(axs)
            if axs <= ALLOWED_AXIOMS:
                rep["discharged"].append(n)
            else:
                rep["ok"] = False
                rep["failures"].append(f"{n} depends on non-standard axioms {sorted(axs - ALLOWED_AXIOMS)}")
        hits = forbidden_tokens()
        if hits:
            rep["ok"] = False
            rep["failures"].append("forbidden tokens in lean sources: " + "; ".join(hits[:10]))
        if tier == "thorough" and rep["ok"]:
            rc, out = sh(
                ["lake", "env", "leanchecker"] + mods,
                cwd=LEAN,
                timeout=3000,
            )
            rep["leanchecker"] = "ok" if rc == 0 else out[-2000:]
            rep["checker_cmd"] += f" && lake env leanchecker DelbModel.Props.{prop}"
            if rc != 0:
                rep["ok"] = False
                rep["failures"].append("leanchecker rejected the module:\n" + out[-2000:])
    rep["wall_s"] = round(time.time() - t0, 2)
    return rep


def run_driver(requests: list[dict], timeout=3000) -> list[dict]:
    """Send one JSON request per line to the compiled Lean model driver."""
    if not DRIVER.exists():
        raise ToolFailure("lean driver binary missing (setup_cmd not run?)")
    data = "".join(json.dumps(r, ensure_ascii=False) + "\n" for r in requests)
    r = subprocess.run(
        [str(DRIVER)], input=data.encode("utf-8"), capture_output=True, timeout=timeout
    )
    if r.returncode != 0:
        raise ToolFailure(
            f"lean driver exited with {r.returncode}: {r.stderr.decode(errors='replace')[-2000:]}"
        )
    lines = r.stdout.decode("utf-8").split("\n")
    if lines and lines[-1] == "":
        lines.pop()
    if len(lines) != len(requests):
        raise ToolFailure(f"driver answered {len(lines)} lines for {len(requests)} requests")
    return [json.loads(l) for l in lines]


def digest(obj) -> str:
    return hashlib.sha1(
        json.dumps(obj, sort_keys=True, ensure_ascii=False, default=str).encode()
    ).hexdigest()[:16]


def known_findings(prop: str) -> list[dict]:
    if not KNOWN_FINDINGS.exists():
        return []
    data = json.loads(KNOWN_FINDINGS.read_text())
    return [f for f in data.get("findings", []) if f["property"] == prop]


FINGERPRINTS = VERIF / "harness" / "source_fingerprints.json"
BUDGET_BOOST = 3


def anchored_files(prop: str) -> list[str]:
    for line in (VERIF / "properties.jsonl").read_text().splitlines():
        if line.strip():
            p = json.loads(line)
            if p["id"] == prop:
                return sorted(p["anchors"]["files"])
    return []


def file_digest(rel: str) -> str:
    f = REPO / rel
    return hashlib.sha256(f.read_bytes()).hexdigest() if f.exists() else "missing"


def source_changed(prop: str) -> list[str]:
    """the files the property is anchored in that differ from the tree the machinery was last validated against
    (harness/source_fingerprints.json, rewritten by harness/update_fingerprints.py after every commit to /repo)"""
    try:
        known = json.loads(FINGERPRINTS.read_text())
    except Exception:  # noqa: BLE001
        return ["<no fingerprints>"]
    return [f for f in anchored_files(prop) if known.get(f) != file_digest(f)]


class Run:
    """Collects what one check run explored and decides the verdict."""

    def budget(self, quick: int, thorough: int) -> int:
        """number of generated cases: fixed per tier; the quick tier explores BUDGET_BOOST times as many when the
        source the property is anchored in is not the source the machinery was last validated against"""
        if self.tier != "quick":
            return thorough
        changed = source_changed(self.prop)
        self.extra["source_changed_since_validation"] = changed
        return quick * (BUDGET_BOOST if changed else 1)

    def __init__(self, prop: str, tier: str, seed: int):
        self.prop, self.tier, self.seed = prop, tier, seed
        self.t0 = time.time()
        self.rng = random.Random((seed << 8) ^ int(prop[1:]))
        self.evaluations = 0
        self.nontrivial: set[str] = set()
        self.samples: list = []
        self.hist: dict[str, dict[str, int]] = {}
        self.mismatches: list[dict] = []  # correspondence: impl != model
        self.violations: list[dict] = []  # property oracle failed on impl
        self.known_hit: list[str] = []
        self.notes: list[str] = []
        self.streams: dict[str, int] = {}
        self.extra: dict = {}

    def enough(self) -> bool:
        """the verdict is settled: several property violations with failing inputs are in hand, further exploration only
        costs time (a changed library can make every case slow)"""
        if len(self.violations) >= 8:
            return True
        limit = 900 if self.tier == "quick" else 4 * 3600
        if time.time() - self.t0 > limit:
            if "time budget exhausted" not in self.notes:
                self.notes.append("time budget exhausted")
                self.extra["time_budget_exhausted_after_s"] = round(time.time() - self.t0)
            return True
        return False

    # bookkeeping -------------------------------------------------------
    def case(self, stream: str, case, nontrivial: bool):
        self.evaluations += 1
        self.streams[stream] = self.streams.get(stream, 0) + 1
        if nontrivial:
            self.nontrivial.add(digest([stream, case]))
        if len(self.samples) < 6 and nontrivial and self.streams[stream] in (3, 4):
            self.samples.append({"stream": stream, "case": case})

    def count(self, table: str, key):
        t = self.hist.setdefault(table, {})
        t[str(key)] = t.get(str(key), 0) + 1

    def mismatch(self, stream: str, case, impl, model, what="impl != model"):
        if os.environ.get("VERIF_DEBUG") and len(self.mismatches) < 8:
            print("MISMATCH", json.dumps({"stream": stream, "what": what, "case": case, "impl": impl, "model": model},
                                         ensure_ascii=False, default=str)[:1500], file=sys.stderr)
        if len(self.mismatches) < 50:
            self.mismatches.append(
                {"stream": stream, "case": case, "impl": impl, "model": model, "what": what}
            )

    def violation(self, stream: str, case, detail):
        if os.environ.get("VERIF_DEBUG") and len(self.violations) < 8:
            print("VIOLATION-DETAIL", json.dumps({"stream": stream, "case": case, "detail": detail},
                                                 ensure_ascii=False, default=str)[:1500], file=sys.stderr)
        if len(self.violations) < 50:
            self.violations.append({"stream": stream, "case": case, "detail": detail})

    # verdict -----------------------------------------------------------
    def write_replay(self, payload: dict) -> Path:
        REPLAYS.mkdir(exist_ok=True)
        n = 0
        while (p := REPLAYS / f"{self.prop}-{self.seed}-{n}.json").exists():
            n += 1
        payload = dict(payload)
        payload["property"] = self.prop
        payload["seed"] = self.seed
        payload["tier"] = self.tier
        payload["replay_cmd"] = f"./check {self.prop} --replay {p.relative_to(VERIF)}"
        p.write_text(json.dumps(payload, indent=1, ensure_ascii=False, default=str))
        return p

    def finish(self, lean: dict, level_text: str, assumptions: list[str], search=None) -> int:
        """Write evidence, print the verdict lines, return the exit status."""
        rc = 0
        replay = None
        broken = (not lean["ok"]) or bool(self.mismatches)
        if self.violations:
            rc = 1
            replay = self.write_replay(
                {"kind": "property-violation", "failing": self.violations[:5], "lean": lean["failures"]}
            )
            print(f"VIOLATION property={self.prop} replay={replay}")
        elif broken:
            rc = 1
            found = None
            if search is not None:
                try:
                    found = search(self)
                except ToolFailure:
                    raise
                except Exception as e:  # a crashing search is a tool problem, keep the report
                    self.notes.append(f"search raised {type(e).__name__}: {e}")
            what = {
                "kind": "broken-proof-or-correspondence",
                "theorems_or_build": lean["failures"],
                "correspondence_mismatches": self.mismatches[:5],
            }
            if found:
                what["kind"] = "property-violation-found-by-search"
                what["failing"] = found
                replay = self.write_replay(what)
                print(f"VIOLATION property={self.prop} replay={replay}")
            else:
                replay = self.write_replay(what)
                print(
                    f"VIOLATION property={self.prop} replay={replay} no-failing-input-found"
                )
        self.write_evidence(lean, level_text, assumptions, rc)
        return rc

    def write_evidence(self, lean: dict, level_text: str, assumptions: list[str], rc: int):
        EVIDENCE.mkdir(exist_ok=True)
        cov = {
            "obligations": max(1, len(lean["obligations"])),
            "discharged": len(lean["discharged"]),
            "checker_cmd": lean["checker_cmd"],
            "trusted_base": sorted(
                {"Lean 4.33.0 kernel"}
                | {a for axs in lean["axioms"].values() for a in axs}
                | {"harness/gen_tables.py (translator)", "correspondence harness + Lean driver line protocol"}
            ),
            "theorems": lean["axioms"],
            "lean_failures": lean["failures"],
            "evaluations": self.evaluations,
            "distinct_nontrivial": len(self.nontrivial),
            "traces_validated_against_impl": self.evaluations,
            "rule": self.extra.get("rule", ""),
            "samples": self.samples[:6] or [{"note": "no correspondence cases in this run"}],
            "streams": self.streams,
            "histograms": self.hist,
            "correspondence_mismatches": len(self.mismatches),
            "known_findings_replayed": self.known_hit,
            "explanation": level_text,
            "notes": self.notes,
        }
        for k, v in self.extra.items():
            if k != "rule":
                cov[k] = v
        ev = {
            "property_id": self.prop,
            "tier": self.tier,
            "seed": self.seed,
            "level": "proof",
            "coverage": cov,
            "assumptions": assumptions,
            "wall_s": round(time.time() - self.t0, 2),
            "violations": len(self.violations) + (1 if rc and not self.violations else 0),
        }
        (EVIDENCE / f"{self.prop}.json").write_text(
            json.dumps(ev, indent=1, ensure_ascii=False, default=str)
        )

#!/bin/bash
# maintenance helper (not a registered command): re-run every archived seeded change against the current checks.
# For each seeded/<id>: a scratch worktree of /repo HEAD, the patch applied there (if it still applies), the property's
# check run from an isolated copy of /verif (harness/try_mutant_iso.sh). Output: one line per seeded change.
# usage: [SEEDS="0 1 2"] harness/reseed_all.sh [jobs]    (default 4 in parallel)
cd /verif
jobs=${1:-4}
one() {
  id="$1"; prop="${id%%-*}"; wt="/tmp/reseed_$id"
  git -C /repo worktree add --detach "$wt" -q 2>/dev/null
  if git -C "$wt" apply "/verif/seeded/$id/patch.diff" 2>/dev/null; then
    hits=0; total=0
    for seed in ${SEEDS:-0}; do
      r=$(VERIF_SEED=$seed harness/try_mutant_iso.sh "$wt" "$prop" 2>&1 | tail -1)
      total=$((total+1)); case "$r" in *VIOLATION*) hits=$((hits+1));; esac
    done
    echo "$id detected in $hits of $total seeds (${SEEDS:-0}); last: $r"
  else
    echo "$id stale: patch does not apply to the current HEAD (the code it changed was repaired or rewritten since)"
  fi
  git -C /repo worktree remove --force "$wt" 2>/dev/null
}
export -f one
ls seeded | xargs -P "$jobs" -I{} bash -c 'one {}'

#!/usr/bin/env python3
"""maintenance helper (not a registered command): archive a behaviour-preserving refactoring under /verif/harmless/EQ-<id>/

usage: archive_harmless.py <Cnn> <worktree with out/> <checks run, comma separated> <result text>
"""
import json, shutil, subprocess, sys
from pathlib import Path

pid, wt, checks, result = sys.argv[1:5]
out = Path(wt) / "out"
dst = Path("/verif/harmless") / f"EQ-{pid}"
dst.mkdir(parents=True, exist_ok=True)
shutil.copy(out / "patch.diff", dst / "patch.diff")
meta = json.loads((out / "meta.json").read_text())
meta["checked_with"] = checks.split(",")
meta["result"] = result
meta["patch_applies_to_repo_head"] = subprocess.run(["git", "-C", "/repo", "apply", "--check", str(dst / "patch.diff")]).returncode == 0
(dst / "meta.json").write_text(json.dumps(meta, indent=1, ensure_ascii=False))
print(dst, meta["patch_applies_to_repo_head"])

"""Plain-tree utilities shared by the correspondence streams.

Plain tree (JSON, same encoding as lean/DelbDriver/Tree.lean):
  ["t", ns, name, [[ns, name, value], ...], [kids...]]   tag node
  ["x", s]  text     ["c", s]  comment     ["p", target, s]  processing instruction
"""

from __future__ import annotations

import io

XML_NS = "http://www.w3.org/XML/1998/namespace"


class KeepBytesIO(io.BytesIO):
    """Document.write wraps the buffer in a TextIOWrapper that closes it when collected."""

    def close(self):
        self._kept = self.getvalue()
        super().close()

    def value(self):
        return self._kept if self.closed else self.getvalue()


# ---------------------------------------------------------------- extraction
def extract(node):
    """What a program observes of `node` through delb's public API (all node kinds)."""
    from delb import CommentNode, ProcessingInstructionNode, TagNode, TextNode, altered_default_filters

    with altered_default_filters():
        return _extract(node, TagNode, TextNode, CommentNode, ProcessingInstructionNode)


def _extract(node, TagNode, TextNode, CommentNode, PINode):
    if isinstance(node, TagNode):
        attrs = [[a.namespace, a.local_name, a.value] for a in node.attributes.values()]
        kids = [_extract(c, TagNode, TextNode, CommentNode, PINode) for c in node.iterate_children()]
        return ["t", node.namespace, node.local_name, attrs, kids]
    if isinstance(node, TextNode):
        return ["x", node.content]
    if isinstance(node, CommentNode):
        return ["c", node.content]
    if isinstance(node, PINode):
        return ["p", node.target, node.content]
    raise TypeError(type(node))


def extract_lxml(el):
    """Plain tree of an lxml element (independent of delb; used as a reference reader)."""
    from lxml import etree

    def attrs_of(e):
        out = []
        for k, v in e.attrib.items():
            q = etree.QName(k)
            out.append([q.namespace or "", q.localname, v])
        return out

    def kids_of(e):
        out = []
        if e.text is not None:
            out.append(["x", e.text])
        for c in e:
            out.append(conv(c))
            if c.tail is not None:
                out.append(["x", c.tail])
        return out

    def conv(e):
        if e.tag is etree.Comment:
            return ["c", e.text]
        if e.tag is etree.PI:
            return ["p", e.target, e.text or ""]
        q = etree.QName(e.tag)
        return ["t", q.namespace or "", q.localname, attrs_of(e), kids_of(e)]

    return conv(el)


# ---------------------------------------------------------------- normal forms
def merge_text(tree):
    """Concatenate adjacent text nodes, drop empty ones (what any parser delivers)."""
    if tree[0] != "t":
        return tree
    kids = []
    for k in tree[4]:
        k = merge_text(k)
        if k[0] == "x":
            if k[1] == "":
                continue
            if kids and kids[-1][0] == "x":
                kids[-1] = ["x", kids[-1][1] + k[1]]
                continue
        kids.append(k)
    return ["t", tree[1], tree[2], sort_attrs(tree[3]), kids]


def sort_attrs(attrs):
    return sorted([list(a) for a in attrs], key=lambda a: (a[0], a[1]))


def canon(tree):
    """Order-insensitive on attributes, segmentation-sensitive on text."""
    if tree[0] != "t":
        return tree
    return ["t", tree[1], tree[2], sort_attrs(tree[3]), [canon(k) for k in tree[4]]]


def size(tree):
    return 1 + (sum(size(k) for k in tree[4]) if tree[0] == "t" else 0)


def depth(tree):
    return 1 + (max((depth(k) for k in tree[4]), default=0) if tree[0] == "t" else 0)


def full_text(tree):
    if tree[0] == "x":
        return tree[1]
    if tree[0] == "t":
        return "".join(full_text(k) for k in tree[4])
    return ""


# ---------------------------------------------------------------- writers / builders
def esc_text(s):
    return s.replace("&", "&amp;").replace("<", "&lt;").replace(">", "&gt;").replace("\r", "&#13;")


def esc_text_min(s):
    """exactly the three characters delb escapes in text"""
    return s.replace("&", "&amp;").replace("<", "&lt;").replace(">", "&gt;")


def esc_attr_min(s):
    return esc_text_min(s).replace('"', "&quot;")


def esc_attr(s):
    return (
        esc_text(s).replace('"', "&quot;").replace("\t", "&#9;").replace("\n", "&#10;")
    )


def to_xml(tree, default_ns=None, prefixes=None):
    """Independent minimal XML writer. Elements in `default_ns` are written unprefixed under
    a default declaration on the root; every other namespace gets a prefix declared on the
    root. Attribute namespaces always use prefixes (xml: for the XML namespace)."""
    nss = []

    def collect(t):
        if t[0] != "t":
            return
        for n in [t[1]] + [a[0] for a in t[3]]:
            if n and n != XML_NS and n not in nss:
                nss.append(n)
        for k in t[4]:
            collect(k)

    collect(tree)
    prefixes = dict(prefixes or {})
    i = 0
    for n in nss:
        if n not in prefixes:
            while f"q{i}" in prefixes.values():
                i += 1
            prefixes[n] = f"q{i}"
            i += 1
    prefixes[XML_NS] = "xml"

    def qn(ns, name, is_attr):
        if not ns:
            return name
        if ns == default_ns and not is_attr:
            return name
        return f"{prefixes[ns]}:{name}"

    def w(t, root):
        if t[0] == "x":
            return esc_text(t[1])
        if t[0] == "c":
            return f"<!--{t[1]}-->"
        if t[0] == "p":
            return f"<?{t[1]} {t[2]}?>" if t[2] else f"<?{t[1]}?>"
        name = qn(t[1], t[2], False)
        parts = [name]
        if root:
            if default_ns:
                parts.append(f'xmlns="{esc_attr(default_ns)}"')
            for n in nss:
                parts.append(f'xmlns:{prefixes[n]}="{esc_attr(n)}"')
        for a in t[3]:
            parts.append(f'{qn(a[0], a[1], True)}="{esc_attr(a[2])}"')
        head = " ".join(parts)
        if not t[4]:
            return f"<{head}/>"
        return f"<{head}>" + "".join(w(k, False) for k in t[4]) + f"</{name}>"

    return w(tree, True)


def build_api(tree):
    """Build the tree with delb's public constructors (text nodes stay separate objects)."""
    from delb import new_comment_node, new_processing_instruction_node, new_tag_node

    if tree[0] == "x":
        return tree[1]
    if tree[0] == "c":
        return new_comment_node(tree[1])
    if tree[0] == "p":
        return new_processing_instruction_node(tree[1], tree[2])
    node = new_tag_node(tree[2], attributes={(a[0], a[1]): a[2] for a in tree[3]}, namespace=tree[1] or None)
    kids = [build_api(k) for k in tree[4]]
    if kids:
        node.append_children(*kids)
    return node


def parse(xml: str, **opts):
    from delb import Document, ParserOptions

    return Document(xml, parser_options=ParserOptions(**opts) if opts else None)


# ---------------------------------------------------------------- generators
NAMES = ["a", "b", "c", "div", "p", "hi", "lb", "note"]
NSS = ["", "", "", "urn:x", "urn:y", "http://www.tei-c.org/ns/1.0"]
WORDS = ["x", "yz", "lorem", "ipsum", "é", "漢字", "&", "<", ">", '"', "'", "]]>", "a-b", "1", '"q"', "a&b"]
# attribute values share strings with the text pool (the same string in both contexts must be escaped per context)
ATTR_VALUES = ["", "1", "v w", "a&b", '"q"', "<", "é", '"', "'", "]]>", ">", "x", "&"]
WS = [" ", "  ", "\n", "\t", " \n ", "\n\t\t", "\r"]
SEAMS = [("]]", ">"), ("]", "]>"), ("x ]]", "> y"), ("&", "amp;"), ("&#", "60;"), ("<", "!--"), ("<", "/a>"), ("-", "->")]


def gen_text(rng, ws_prob=0.5, words=WORDS, ws=WS, empty_ok=False):
    if empty_ok and rng.random() < 0.05:
        return ""
    parts = []
    if rng.random() < ws_prob:
        parts.append(rng.choice(ws))
    n = rng.choice([0, 1, 1, 2, 3])
    for i in range(n):
        parts.append(rng.choice(words))
        if i + 1 < n:
            parts.append(rng.choice(ws) if rng.random() < 0.8 else "")
    if rng.random() < ws_prob:
        parts.append(rng.choice(ws))
    s = "".join(parts)
    return s if (s or empty_ok) else rng.choice(ws)


# rarely used shapes: names with dots/dashes/digits/underscores/non-ASCII letters, many namespaces, xml:* attributes,
# long and astral strings, wide and deep trees (switched on per tree with probability STRESS)
STRESS = 0.12
ODD_NAMES = ["a.b", "x-y", "n_1", "_u", "é", "Tag9", "名"]
ODD_ATTR_NAMES = ["data-x", "a.b", "_k", "n1"]
ODD_VALUES = ["   ", " lead", "trail ", "x" * 120, "𝔘😀", "a  b"]
MANY_NSS = ["urn:n1", "urn:n2", "urn:n3", "http://www.w3.org/1999/xhtml", "http://www.w3.org/2000/svg"]


def gen_tree(rng, max_depth=4, max_kids=5, nss=NSS, p_text=0.45, p_comment=0.08, p_pi=0.05,
             text=gen_text, attrs=True, space_attr=0.0, adjacent_text=False, inherit_ns=0.7, _ns=None, _depth=0, _stress=None,
             stress=True):
    if _stress is None:
        _stress = rng.choice(["names", "wide", "deep", "nss", "values"]) if (stress and rng.random() < STRESS) else ""
    if _stress == "nss" and rng.random() < 0.5:
        nss = list(nss) + MANY_NSS
    ns = _ns if (_ns is not None and rng.random() < inherit_ns) else rng.choice(nss)
    at = []
    if attrs:
        for _ in range(rng.choice([0, 0, 0, 1, 1, 2, 3]) + (3 if _stress == "values" and rng.random() < 0.3 else 0)):
            ans = rng.choice(["", "", "", "urn:x", "urn:z"] + (MANY_NSS if _stress == "nss" else []))
            an = rng.choice(["id", "n", "type", "k"] + (ODD_ATTR_NAMES if _stress in ("names", "values") else []))
            if not any(a[0] == ans and a[1] == an for a in at):
                at.append([ans, an, rng.choice(ATTR_VALUES + (ODD_VALUES if _stress == "values" else []))])
        if _stress in ("names", "values") and rng.random() < 0.3 and not any(a[0] == XML_NS for a in at):
            at.append([XML_NS, "lang", rng.choice(["en", "x1"])])  # not xml:id: its values must be unique per document
    if _stress == "wide" and _depth == 0:
        max_kids = 16
    if _stress == "deep":
        max_depth, max_kids = 8, 2
    if space_attr and rng.random() < space_attr:
        at.append([XML_NS, "space", rng.choice(["preserve", "preserve", "default", "bogus"])])
    kids = []
    if _depth < max_depth:
        for _ in range(rng.randint(0, max_kids)):
            r = rng.random()
            if r < p_text:
                if kids and kids[-1][0] == "x" and not adjacent_text:
                    continue
                if kids and kids[-1][0] == "x" and rng.random() < 0.25:
                    # a sequence that is only markup-significant as a whole, split over the seam of two adjacent text nodes
                    # (seeded C02-8: `]]>` escaped per text node)
                    left, right = rng.choice(SEAMS)
                    kids[-1] = ["x", kids[-1][1] + left]
                    kids.append(["x", right + text(rng)])
                    continue
                kids.append(["x", text(rng)])
            elif r < p_text + p_comment:
                kids.append(["c", rng.choice(["c", " note ", "a-b", ""])])
            elif r < p_text + p_comment + p_pi:
                kids.append(["p", rng.choice(["pi", "target"]), rng.choice(["", "x=1", "data  d"])])
            else:
                kids.append(gen_tree(rng, max_depth, max_kids if _stress != "wide" else 5, nss, p_text, p_comment, p_pi, text, attrs,
                                     space_attr, adjacent_text, inherit_ns, ns, _depth + 1, _stress))
    if _stress == "deep" and _depth < max_depth and not any(k[0] == "t" for k in kids):
        kids.append(gen_tree(rng, max_depth, max_kids, nss, p_text, p_comment, p_pi, text, attrs,
                             space_attr, adjacent_text, inherit_ns, ns, _depth + 1, _stress))
    return ["t", ns, rng.choice(NAMES + (ODD_NAMES if _stress == "names" else [])), at, kids]

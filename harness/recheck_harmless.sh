#!/bin/bash
# maintenance helper (not a registered command): re-run the checks against the archived BEHAVIOUR-PRESERVING refactorings
# (harmless/EQ-<id>/patch.diff, made by sub-agents that saw only the property text). Expected: no VIOLATION line.
# usage: harness/recheck_harmless.sh [jobs]
cd /verif
jobs=${1:-3}
one() {
  id="$1"; wt="/tmp/harmless_$id"
  checks=$(python3 -c "import json;print(' '.join(json.load(open('/verif/harmless/$id/meta.json')).get('checked_with', ['${id#EQ-}'])))")
  git -C /repo worktree add --detach "$wt" -q 2>/dev/null
  if git -C "$wt" apply "/verif/harmless/$id/patch.diff" 2>/dev/null; then
    harness/try_mutant_iso.sh "$wt" $checks 2>&1 | sed "s/^/$id /"
  else
    echo "$id stale: patch does not apply to the current HEAD"
  fi
  git -C /repo worktree remove --force "$wt" 2>/dev/null
}
export -f one
ls harmless | xargs -P "$jobs" -I{} bash -c 'one {}'
